--------------------------- MODULE Trace_HugrStore ---------------------------
(* Validation of executions recorded from real hugr.Hugr objects: every event is one public call with its
   arguments (node ids in the model's fresh-id numbering, kept by the driver from the returned handles), the
   outcome class and the projection of both stores afterwards.  A trace is accepted iff every step is a step
   of HugrStore!Next whose post-state has exactly the logged nodes, hierarchy, metadata and bag of links, and
   port counts no smaller than the model's. *)
EXTENDS HugrStore, Json, IOUtils, TLCExt
Traces == JsonDeserialize(IOEnv.TRACE_FILE)
VARIABLES tid, l
tvars == <<vars, tid, l>>
ToSet(s) == {s[i] : i \in 1..Len(s)}
TOffsets == {-1, 0, 1, 2}
TInit == Init /\ tid \in 1..Len(Traces) /\ l = 1
Step(e) ==
  CASE e.a = "AddNode"      -> AddNode(e.i, e.p, e.o, e.cnt, e.m)
    [] e.a = "AddLink"      -> AddLink(e.i, e.sn, e.so, e.dn, e.do)
    [] e.a = "AddOrderLink" -> AddOrderLink(e.i, e.sn, e.dn)
    [] e.a = "DeleteLink"   -> DeleteLink(e.i, e.sn, e.so, e.dn, e.do)
    [] e.a = "DeleteNode"   -> DeleteNode(e.i, e.n)
    [] e.a = "TouchDead"    -> TouchDead(e.i, e.n)
    [] e.a = "SetMeta"      -> SetMeta(e.i, e.n, e.m)
    [] e.a = "InsertHugr"   -> InsertHugr(e.p)
Matches(s, o) ==
  /\ s.live = ToSet(o.nodes) /\ Cardinality(s.live) = o.len
  /\ \A r \in ToSet(o.node) :
       /\ r.id \in s.live /\ s.op[r.id] = r.op /\ s.parent[r.id] = r.parent /\ s.children[r.id] = r.children
       /\ s.meta[r.id] = r.meta /\ r.nin >= s.nin[r.id] /\ r.nout >= s.nout[r.id]
  /\ Cardinality(ToSet(o.node)) = Cardinality(s.live)
  /\ BagAsSet(s.links) = {<<p[1], p[2]>> : p \in ToSet(o.links)}
ResMatches(e) ==
  /\ res'.k = e.res.k
  /\ (e.res.k = "node" => res'.id = e.res.id)
  /\ (e.res.k = "mapping" => \A n \in DOMAIN res'.map : res'.map[n] = e.res.map[ToString(n)])
TNext == /\ l <= Len(Traces[tid])
         /\ LET e == Traces[tid][l] IN
            /\ Step(e) /\ ResMatches(e)
            /\ Matches(st'[1], e.obs.a) /\ Matches(st'[2], e.obs.b)
         /\ l' = l + 1 /\ UNCHANGED tid
(* the action laws of C04 / C08 evaluated on every step of the real execution *)
TLaw ==
  LET e == Traces[tid][l] i == e.i IN
  CASE e.a = "DeleteLink" ->
         \A k \in AllLinks : LinkCount(st'[i], k) = LinkCount(st[i], k) - (IF k = Link(e.sn, e.so, e.dn, e.do) /\ LinkCount(st[i], k) > 0 THEN 1 ELSE 0)
    [] e.a = "DeleteNode" ->
         \A k \in AllLinks : LinkCount(st'[i], k) = (IF k[1] = e.n \/ k[3] = e.n THEN 0 ELSE LinkCount(st[i], k))
    [] e.a = "InsertHugr" -> InsertIsIso
    [] OTHER -> TRUE
TLawProp == [][l <= Len(Traces[tid]) => TLaw]_tvars
Progress == TLCSet(tid, l)
InitRegs == \A i \in 1..Len(Traces) : TLCSet(i, 0)
TInit2 == InitRegs /\ TInit
Accepted == LET bad == {i \in 1..Len(Traces) : TLCGet(i) # Len(Traces[i]) + 1} IN
            IF bad = {} THEN TRUE ELSE PrintT(ToJson([rejected |-> {<<i, TLCGet(i)>> : i \in bad}])) /\ FALSE
=============================================================================
