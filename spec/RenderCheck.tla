------------------------------ MODULE RenderCheck ------------------------------
EXTENDS Render, Json, IOUtils
Docs == JsonDeserialize(IOEnv.DOCS_FILE)
VARIABLE i
Init == i \in 1..Len(Docs)
Next == UNCHANGED i
Verdict == PrintT(ToJson([name |-> Docs[i].name, idx |-> i, failing |-> DrawingFailing(Docs[i].st, Docs[i].g)]))
=============================================================================
