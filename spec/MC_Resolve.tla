------------------------------ MODULE MC_Resolve ------------------------------
(* C11: extension resolution of type expressions.  One initial state per (type term, registry); the invariant checks
   the laws of HugrWire!Resolve and prints the expected result. *)
EXTENDS HugrTerms, Json
VARIABLES t, reg
Keys == {<<"e1", "Lin">>, <<"e1", "Cpy">>, <<"e1", "P">>, <<"e2", "Q2">>, <<"e1", "Pair">>}
Defs == (<<"e1", "Lin">> :> Explicit("A")) @@ (<<"e1", "Cpy">> :> Explicit("C")) @@ (<<"e1", "P">> :> FromParams(<<0>>)) @@ (<<"e2", "Q2">> :> Explicit("A"))
        @@ (<<"e1", "Pair">> :> FromParams(<<0, 1>>))            \* bound = join over two arguments
Regs == {[k \in S |-> Defs[k]] : S \in SUBSET Keys}
O(e, id, args, b) == OpaqueT(e, id, args, b)
Lin == O("e1", "Lin", <<>>, "A")
Cpy == O("e1", "Cpy", <<>>, "C")
Q2  == O("e2", "Q2", <<>>, "A")
Unk == O("e9", "Lin", <<>>, "A")                 \* an extension no registry holds
PA(x) == O("e1", "P", <<TyArg(x)>>, Bound(x))     \* declared bound consistent with the definition (from-params [0])
JoinB(a, b) == IF a = "C" /\ b = "C" THEN "C" ELSE "A"
Pair(x, y) == O("e1", "Pair", <<TyArg(x), TyArg(y)>>, JoinB(Bound(x), Bound(y)))
Leaf == {Lin, Cpy, Q2, Unk, BoolT, QubitT}
L1 == {PA(x) : x \in Leaf} \cup {TupleT(<<x, y>>) : x, y \in Leaf} \cup {OptionT(<<x>>) : x \in Leaf}
      \cup {GenSumT(<<<<x>>, <<y>>>>) : x, y \in {Lin, Cpy, Unk}} \cup {FnT(<<x>>, <<y>>) : x, y \in {Lin, Cpy, Q2, BoolT}}
      \cup {O("e1", "P", <<TyArg(x), SeqArg(<<TyArg(y), NatArg(1)>>)>>, Bound(x)) : x, y \in {Lin, Cpy, Unk}}
      \cup {EitherT(<<x>>, <<y>>) : x, y \in {Lin, Q2, BoolT}}
      \cup {Pair(x, y) : x, y \in {Cpy, BoolT, QubitT, Lin}}
      \cup {O("e9", "Z", <<SeqArg(<<SeqArg(<<TyArg(x), SeqArg(<<TyArg(y)>>)>>), NatArg(2)>>)>>, "A") : x, y \in {Lin, Cpy, Unk}}   \* sequences of sequences
Rep1 == {PA(Lin), PA(Cpy), TupleT(<<Lin, Cpy>>), FnT(<<Q2>>, <<Lin>>), PA(Unk), OptionT(<<Cpy>>)}
L2 == {PA(x) : x \in Rep1} \cup {TupleT(<<x, y>>) : x, y \in Rep1} \cup {FnT(<<x>>, <<y>>) : x, y \in Rep1}
      \cup {GenSumT(<<<<x, Lin>>, <<>>>>) : x \in Rep1} \cup {O("e9", "Z", <<TyArg(x), SeqArg(<<TyArg(x)>>)>>, "A") : x \in Rep1}
L3 == {PA(PA(PA(Lin))), TupleT(<<PA(TupleT(<<Lin, PA(Cpy)>>)), FnT(<<PA(PA(Q2))>>, <<OptionT(<<PA(Unk)>>)>>)>>),
       O("e9", "Z", <<SeqArg(<<TyArg(PA(FnT(<<Lin>>, <<PA(Cpy)>>)))>>)>>, "A")}
Terms == Leaf \cup L1 \cup L2 \cup L3
Init == t \in Terms /\ reg \in Regs
Next == UNCHANGED <<t, reg>>
R == Resolve(t, reg)
(* occurrences of opaque types by key *)
RECURSIVE Occ(_, _), OccArg(_, _)
OccRow(row, k) == LET RECURSIVE S(_) S(i) == IF i > Len(row) THEN 0 ELSE Occ(row[i], k) + S(i + 1) IN S(1)
OccArg(a, k) == CASE a.tya = "Type" -> Occ(a.ty, k)
                  [] a.tya = "Sequence" -> LET RECURSIVE S(_) S(i) == IF i > Len(a.elems) THEN 0 ELSE OccArg(a.elems[i], k) + S(i + 1) IN S(1)
                  [] OTHER -> 0
Occ(x, k) ==
  (IF x.t = "Opaque" /\ <<x.extension, x.id>> = k THEN 1 ELSE 0) +
  (CASE IsSumT(x) -> LET rows == SumRows(x) RECURSIVE S(_) S(i) == IF i > Len(rows) THEN 0 ELSE OccRow(rows[i], k) + S(i + 1) IN S(1)
     [] x.t = "G" -> OccRow(x.input, k) + OccRow(x.output, k)
     [] x.t \in {"Opaque", "Ext"} -> LET RECURSIVE S(_) S(i) == IF i > Len(x.args) THEN 0 ELSE OccArg(x.args[i], k) + S(i + 1) IN S(1)
     [] OTHER -> 0)
Laws ==
  /\ Resolve(R, reg) = R                                               \* resolving twice equals resolving once
  /\ Desugar(R) = Desugar(t)                                          \* invisible on the wire
  /\ Bound(R) = Bound(t)
  /\ \A k \in Keys : Occ(R, k) = (IF k \in DOMAIN reg THEN 0 ELSE Occ(t, k))        \* replaced exactly when the registry holds it,
  /\ CountKind(R, "Ext") = LET RECURSIVE S(_) S(KS) == IF KS = {} THEN 0 ELSE LET k == CHOOSE x \in KS : TRUE IN Occ(t, k) + S(KS \ {k}) IN S(DOMAIN reg)
  /\ Occ(R, <<"e9", "Lin">>) = Occ(t, <<"e9", "Lin">>) /\ Occ(R, <<"e9", "Z">>) = Occ(t, <<"e9", "Z">>)   \* ... everything else untouched
Emit == PrintT(ToJson([t |-> t, reg |-> {[ext |-> k[1], id |-> k[2], bspec |-> reg[k]] : k \in DOMAIN reg}, res |-> R, enc |-> Desugar(t), bound |-> Bound(t)]))
=============================================================================
