---------------------------- MODULE MC_HugrTracked ----------------------------
EXTENDS HugrTracked, Json
CONSTANTS MaxCmds, MaxTracked
VARIABLE hist
ArityDef == [N |-> <<1, 1>>, D |-> <<2, 2>>, M |-> <<1, 2>>]
MCInit == Init /\ hist = <<>>
IdxArgs == {Idx(i) : i \in 0..(MaxTracked - 1)}
WireArgs == {Wr(w) : w \in {x \in Wires : ValidWire(x)}}
ArgSeqs(n) == [1..n -> IdxArgs \cup WireArgs]
Ev(a, x) == [a |-> a] @@ x
MCNext ==
  \/ Len(tracked) < MaxTracked /\ \E w \in Wires : TrackWire(w) /\ hist' = Append(hist, Ev("TrackWire", [w |-> w]))
  \/ Len(tracked) + Width <= MaxTracked /\ TrackInputs /\ hist' = Append(hist, Ev("TrackInputs", [x |-> 0]))
  \/ \E i \in 0..MaxTracked : Untrack(i) /\ hist' = Append(hist, Ev("Untrack", [i |-> i]))
  \/ Len(cmds) < MaxCmds /\ \E op \in Ops, m \in Metas : \E args \in ArgSeqs(Arity[op][1]) :
        Add(op, args, m) /\ hist' = Append(hist, Ev("Add", [op |-> op, args |-> args, m |-> m]))
  \/ \E n \in 0..2 : \E args \in ArgSeqs(n) : SetIndexedOutputs(args) /\ hist' = Append(hist, Ev("SetIndexedOutputs", [args |-> args]))
  \/ SetTrackedOutputs /\ hist' = Append(hist, Ev("SetTrackedOutputs", [x |-> 0]))
View == <<tracked, cmds, outs, closed, res>>
Laws == [][FreedForGood /\ OnlyGrows]_<<vars, hist>>
Inv == WellWired
Emit == PrintT(ToJson([hist |-> hist', res |-> res', tracked |-> tracked', cmds |-> cmds', outs |-> outs']))
EmitState == hist = <<>> \/ PrintT(ToJson([hist |-> hist, res |-> res, tracked |-> tracked, cmds |-> cmds, outs |-> outs]))
=============================================================================
