------------------------------- MODULE MC_Ops -------------------------------
(* C05 (operations) and C06: one initial state per operation term; TLC checks the typing laws and prints the
   term with its signatures, port counts and the kind of every port. *)
EXTENDS HugrStd, Json
VARIABLE o
IntW == Desugar(IntT(5))
U == {BoolT, QubitT, USizeT, FnT(<<BoolT>>, <<BoolT>>), GenSumT(<<<<QubitT>>, <<BoolT>>>>), IntW, Var(0, "A")}
RowsL == SeqsUpTo(U, 2)
RowsS == {<<>>, <<BoolT>>, <<QubitT>>, <<BoolT, QubitT>>, <<FnT(<<BoolT>>, <<BoolT>>), IntW>>, <<QubitT, QubitT>>}
Rows3 == {<<>>, <<BoolT>>, <<QubitT, IntW>>}
SigsNR == {FnT(i, oo) : i \in RowsS, oo \in RowsS}
Sigs == SigsNR \cup {FnTR(i, oo, <<"e1", "e2">>) : i \in Rows3, oo \in Rows3}
Poly(ps, b) == [params |-> ps, body |-> b]
PolyId  == Poly(<<ParamType("A")>>, FnT(<<Var(0, "A")>>, <<Var(0, "A")>>))
PolyRow == Poly(<<ParamList(ParamType("A"))>>, FnT(<<RowVar(0, "A")>>, <<BoolT, RowVar(0, "A")>>))   \* row-polymorphic: arity changes under instantiation
PolyNat == Poly(<<ParamNat(7), ParamType("C")>>, FnT(<<OpaqueT("arithmetic.int.types", "int", <<VarArg(0, ParamNat(7))>>, "C")>>, <<Var(1, "C")>>))
PolyNatU == Poly(<<ParamNat(-1), ParamList(ParamNat(-1))>>, FnT(<<OpaqueT("arithmetic.int.types", "int", <<VarArg(0, ParamNat(-1))>>, "C")>>, <<>>))  \* unbounded nat: "bound": null on the wire
Polys == {Poly(<<>>, s) : s \in SigsNR} \cup {PolyId, PolyRow, PolyNat, PolyNatU}
(* (func_sig, type_args, instantiation) triples *)
Insts == {<<Poly(<<>>, s), <<>>, s>> : s \in SigsNR}
    \cup {<<PolyId, <<TyArg(t)>>, FnT(<<t>>, <<t>>)>> : t \in U}
    \cup {<<PolyRow, <<SeqArg([i \in 1..Len(r) |-> TyArg(r[i])])>>, FnT(r, <<BoolT>> \o r)>> : r \in RowsS}
    \cup {<<PolyNatU, <<NatArg(9), SeqArg(<<NatArg(1)>>)>>, FnT(<<OpaqueT("arithmetic.int.types", "int", <<NatArg(9)>>, "C")>>, <<>>)>>}
    \cup {<<PolyNat, <<NatArg(3), TyArg(BoolT)>>, FnT(<<OpaqueT("arithmetic.int.types", "int", <<NatArg(3)>>, "C")>>, <<BoolT>>)>>}
SmallVals == {EncValS(UnitSumV(1, 2)), EncValS(IntV(5, 7)), EncValS(TupleV(<<UnitSumV(0, 2), IntV(3, 1)>>)),
              EncValS(SomeV(<<UnitSumV(0, 1)>>)), EncValS(FuncV(<<BoolT>>))}
Names == {"f", "fü", " pad ", "nl\n"}      \* names with surrounding whitespace must survive verbatim
WireOps ==
       {[op |-> "Module"]}
  \cup {[op |-> "FuncDefn", name |-> n, signature |-> p] : n \in Names, p \in Polys}
  \cup {[op |-> "FuncDecl", name |-> n, signature |-> p] : n \in {"g"}, p \in Polys}
  \cup {[op |-> "Const", v |-> v] : v \in SmallVals}
  \cup {[op |-> "DataflowBlock", inputs |-> i, other_outputs |-> oo, sum_rows |-> sr, extension_delta |-> d] :
           i \in Rows3, oo \in Rows3, sr \in SeqsUpTo(Rows3, 2), d \in {<<>>, <<"e1">>}}
  \cup {[op |-> "ExitBlock", cfg_outputs |-> r] : r \in RowsL}
  \cup {[op |-> "Input", types |-> r] : r \in RowsL} \cup {[op |-> "Output", types |-> r] : r \in RowsL}
  \cup {[op |-> "Call", func_sig |-> x[1], type_args |-> x[2], instantiation |-> x[3]] : x \in Insts}
  \cup {[op |-> "LoadFunction", func_sig |-> x[1], type_args |-> x[2], instantiation |-> x[3]] : x \in Insts}
  \cup {[op |-> "CallIndirect", signature |-> s] : s \in Sigs}
  \cup {[op |-> "LoadConstant", datatype |-> t] : t \in U \cup {UnitT, GenSumT(<<>>)}}
  \cup {[op |-> "DFG", signature |-> s] : s \in Sigs}
  \cup {[op |-> "CFG", signature |-> s] : s \in SigsNR}
  \cup {[op |-> "Case", signature |-> s] : s \in SigsNR}
  \cup {[op |-> "Conditional", other_inputs |-> i, outputs |-> oo, sum_rows |-> sr, extension_delta |-> <<>>] :
           i \in Rows3, oo \in Rows3, sr \in SeqsUpTo(Rows3, 2)}
  \cup {[op |-> "TailLoop", just_inputs |-> ji, just_outputs |-> jo, rest |-> r, extension_delta |-> d] :
           ji \in Rows3, jo \in Rows3, r \in Rows3, d \in {<<>>, <<"e1">>}}
  \cup {[op |-> "Extension", extension |-> "e1", name |-> "opn", signature |-> s, description |-> d, args |-> a] :
           s \in {FnT(<<QubitT>>, <<QubitT, BoolT>>), FnTR(<<>>, <<IntW>>, <<"e1">>)}, d \in {"", "dësc", "doc \n   "},
           a \in {<<>>, <<NatArg(5)>>, <<TyArg(QubitT), StrArg("s")>>, <<StrArg(" s\n")>>}}
  \cup {[op |-> "Tag", tag |-> t, variants |-> vs] : <<t, vs>> \in {<<tt, vv>> \in (0..2) \X SeqsUpTo(Rows3, 3) : tt < Len(vv)}}
  \cup {[op |-> "AliasDecl", name |-> "al", bound |-> b] : b \in {"C", "A"}}
  \cup {[op |-> "AliasDefn", name |-> "al", definition |-> t] : t \in U}
SugarOps ==
       {MakeTupleOp(r) : r \in RowsS} \cup {UnpackTupleOp(r) : r \in RowsS} \cup {NoopOp(t) : t \in U \cup {TupleT(<<BoolT, QubitT>>)}}
  \cup {SomeOp(r) : r \in RowsS}
  \cup {ExtOpOp("e1", "mono", Poly(<<>>, FnTR(<<QubitT>>, <<QubitT>>, <<"e1">>)), c, <<>>, dd) :
           c \in {NoSig, FnTR(<<QubitT>>, <<QubitT>>, <<"e1">>), FnTR(<<QubitT>>, <<QubitT>>, <<"e1", "extra">>)}, dd \in {"", "dëf doc"}}
  \cup {ExtOpOp("e1", "poly", Poly(<<ParamType("A")>>, FnTR(<<Var(0, "A")>>, <<Var(0, "A")>>, <<"e1">>)),
                 FnTR(<<t>>, <<t>>, <<"e1">>), <<TyArg(t)>>, "p") : t \in {BoolT, QubitT, TupleT(<<BoolT>>)}}
  \cup UNION {{LeftOp(l, r), RightOp(l, r), ContinueOp(l, r), BreakOp(l, r)} : <<l, r>> \in Rows3 \X Rows3}
Init == o \in WireOps \cup SugarOps
Next == UNCHANGED o
E == EncOp(o)
Flip(s) == <<s[2], s[1]>>
Laws ==
  /\ (E.op = "DFG" => DfSig(E) = InnerSig(E))
  /\ (E.op = "TailLoop" => /\ DfSig(E) = <<E.just_inputs \o E.rest, E.just_outputs \o E.rest>>
                           /\ InnerSig(E) = <<E.just_inputs \o E.rest, <<GenSumT(<<E.just_inputs, E.just_outputs>>)>> \o E.rest>>)
  /\ (E.op = "Conditional" => /\ DfSig(E)[1] = <<GenSumT(E.sum_rows)>> \o E.other_inputs
                              /\ \A i \in 0..(Len(E.sum_rows) - 1) : CaseInputs(E, i) = E.sum_rows[i + 1] \o E.other_inputs)
  /\ (E.op = "DataflowBlock" => \A i \in 0..(Len(E.sum_rows) - 1) : SuccOutputs(E, i) = E.sum_rows[i + 1] \o E.other_outputs)
  /\ (E.op = "Tag" => DfSig(E) = <<E.variants[E.tag + 1], <<GenSumT(E.variants)>>>>)
  /\ (o.op = "MakeTuple" => DfSig(E) = Flip(DfSig(EncOp(UnpackTupleOp(o.types)))))          \* inverse pair
  /\ (E.op = "CallIndirect" => DfSig(E) = <<<<E.signature>> \o E.signature.input, E.signature.output>>)
  /\ (E.op \in {"Call", "LoadFunction"} =>
        /\ PortKind(E, "in", Len(DfSig(E)[1])) = <<"Function">>          \* function port right after the value inputs
        /\ NumOut(E) = (IF E.op = "Call" THEN Len(E.instantiation.output) ELSE 1))
  /\ (E.op = "LoadConstant" => PortKind(E, "in", 0) = <<"Const">> /\ PortKind(E, "out", 0) = <<"Value", E.datatype>>)
  /\ (IsDf(E) => \A d \in {"in", "out"} : HasOrder(E, d) => PortKind(E, d, OrderOffset(E, d)) = <<"Order">>)
  /\ (o.op \in {"Some", "Left", "Right", "Continue", "Break"} => E.op = "Tag" /\ DfSig(E)[2] = <<GenSumT(E.variants)>>)
Kinds(d) == [k \in 1..PortCount(E, d) |-> PortKind(E, d, k - 1)]
Emit == PrintT(ToJson(
  [o |-> o, enc |-> E, sugar |-> IsSugarOp(o), isdf |-> IsDf(E), dfsig |-> DfSig(E), hasinner |-> HasInner(E), inner |-> InnerSig(E),
   numout |-> NumOut(E), nval_in |-> NVal(E, "in"), nval_out |-> NVal(E, "out"),
   static_in |-> StaticKind(E, "in"), static_out |-> StaticKind(E, "out"), static_type |-> StaticType(E),
   order_in |-> HasOrder(E, "in"), order_out |-> HasOrder(E, "out"), kinds_in |-> Kinds("in"), kinds_out |-> Kinds("out"),
   case_inputs |-> IF E.op = "Conditional" THEN [i \in 1..Len(E.sum_rows) |-> CaseInputs(E, i - 1)] ELSE <<>>,
   succ_outputs |-> IF E.op = "DataflowBlock" THEN [i \in 1..Len(E.sum_rows) |-> SuccOutputs(E, i - 1)] ELSE <<>>]))
=============================================================================
