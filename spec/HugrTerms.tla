------------------------------ MODULE HugrTerms ------------------------------
(* Bounded enumerators of object-view terms (types, params, args) over HugrWire's vocabulary. *)
EXTENDS HugrWire

SeqsUpTo(S, n) == UNION {[1..k -> S] : k \in 0..n}

(* ---- parameters and non-type arguments ---- *)
ParamType(b) == [tp |-> "Type", b |-> b]
ParamNat(n)  == [tp |-> "BoundedNat", bound |-> n]            \* -1 = no bound
ParamString  == [tp |-> "String"]
ParamExts    == [tp |-> "Extensions"]
ParamList(p) == [tp |-> "List", param |-> p]
ParamTuple(ps) == [tp |-> "Tuple", params |-> ps]
Params0 == {ParamType("C"), ParamType("A"), ParamNat(-1), ParamNat(7), ParamString, ParamExts}
Params1 == Params0 \cup {ParamList(p) : p \in Params0} \cup {ParamTuple(ps) : ps \in SeqsUpTo({ParamType("A"), ParamNat(3), ParamString}, 2)}
Params2 == Params1 \cup {ParamList(ParamList(ParamType("C"))), ParamList(ParamTuple(<<ParamNat(-1), ParamType("A")>>)),
                         ParamTuple(<<ParamList(ParamString), ParamTuple(<<>>)>>)}

StrArg(s) == [tya |-> "String", arg |-> s]
ExtsArg(es) == [tya |-> "Extensions", es |-> es]
SeqArg(es) == [tya |-> "Sequence", elems |-> es]
VarArg(i, p) == [tya |-> "Variable", idx |-> i, cached_decl |-> p]
PlainArgs == {NatArg(0), NatArg(5), StrArg("s"), StrArg(""), StrArg(" lead"), StrArg("trail \n"), ExtsArg(<<>>), ExtsArg(<<"e1">>), VarArg(0, ParamNat(7)), VarArg(1, ParamType("A"))}

(* ---- types ---- *)
Var(i, b)   == [t |-> "V", i |-> i, b |-> b]
RowVar(i, b) == [t |-> "R", i |-> i, b |-> b]
AliasT(n, b) == [t |-> "Alias", bound |-> b, name |-> n]
OpaqueT(e, id, args, b) == [t |-> "Opaque", extension |-> e, id |-> id, args |-> args, bound |-> b]
ExtT(e, id, args, bs) == [t |-> "Ext", extension |-> e, id |-> id, args |-> args, bspec |-> bs]
Explicit(b) == [b |-> "Explicit", bound |-> b]
FromParams(ix) == [b |-> "FromParams", indices |-> ix]

Base == {QubitT, USizeT, BoolT, UnitT, UnitSumT(0), UnitSumT(3), Var(0, "C"), Var(1, "A"), RowVar(0, "A"), RowVar(1, "C"),
         AliasT("al", "A"), AliasT("ac", "C"), AliasT(" a b ", "C"), OpaqueT(" e ", "Id ", <<StrArg("\tx ")>>, "C"), OpaqueT("e1", "Lin", <<>>, "A"), OpaqueT("e1", "Cpy", <<>>, "C")}
(* elements used inside compound types: one per bound-relevant class *)
Elems == {QubitT, BoolT, Var(1, "A"), Var(1, "C"), OpaqueT("e1", "Cpy", <<>>, "C"), OpaqueT("e1", "Cpy", <<>>, "A"), USizeT,
          RowVar(0, "A")}                           \* a row variable inside a row counts with its declared bound
   \* Var(1,C)/Var(1,A) and the two opaque "Cpy" print alike but differ in bound: any caching keyed on display form shows up

BSpecs == {Explicit("C"), Explicit("A"), FromParams(<<>>), FromParams(<<0>>), FromParams(<<1>>), FromParams(<<0, 1>>),
           FromParams(<<1, 0>>), FromParams(<<1, 1>>)}

(* domain of C07: from-params indices are in range ("any index list": an index may also name a nat / string / sequence argument,
   which contributes nothing to the join) *)
WellFormedExt(x) == x.bspec.b = "FromParams" => \A i \in Range(x.bspec.indices) : i + 1 <= Len(x.args)

Compound(E, n) ==      \* all one-level compounds over element set E with rows of length <= n
  LET R == SeqsUpTo(E, n) IN
       {GenSumT(rows) : rows \in SeqsUpTo(R, 2)}
  \cup {TupleT(r) : r \in R} \cup {OptionT(r) : r \in R}
  \cup {EitherT(l, r) : l \in R, r \in R}
  \cup {FnTR(i, o, rr) : i \in R, o \in R, rr \in {<<>>, <<"e1">>}}
TypeArgs(E) == {TyArg(e) : e \in E}
WithArgs(E) ==         \* opaque and definition-backed types over arguments drawn from E
  LET A == SeqsUpTo(TypeArgs(E), 2) \cup {<<NatArg(3), TyArg(e)>> : e \in E} \cup {<<TyArg(e), StrArg("s")>> : e \in E}
           \cup {<<SeqArg(<<TyArg(e), NatArg(1)>>)>> : e \in E} IN
       {OpaqueT("e1", "P", a, b) : a \in A, b \in {"C", "A"}}
  \cup {x \in {ExtT("e1", "D", a, bs) : a \in A, bs \in BSpecs} : WellFormedExt(x)}

Types1(n) == Base \cup Compound(Elems, n) \cup WithArgs(Elems)
(* representatives of depth-1 terms (one per constructor and bound class) used as elements at depth 2 *)
Reps1 == {GenSumT(<<<<QubitT>>, <<>>>>), GenSumT(<<<<BoolT, USizeT>>>>), TupleT(<<BoolT, QubitT>>), OptionT(<<BoolT>>),
          EitherT(<<QubitT>>, <<BoolT>>), FnT(<<QubitT>>, <<BoolT>>), OpaqueT("e1", "P", <<TyArg(QubitT)>>, "A"),
          ExtT("e1", "D", <<TyArg(QubitT), TyArg(BoolT)>>, FromParams(<<1>>)), ExtT("e1", "D", <<TyArg(QubitT)>>, FromParams(<<0>>)),
          GenSumT(<<>>)}
Types2(n) == Compound(Reps1 \cup {BoolT}, n) \cup WithArgs(Reps1)
Reps2 == {TupleT(<<OptionT(<<BoolT>>), EitherT(<<QubitT>>, <<BoolT>>)>>), OptionT(<<TupleT(<<BoolT, QubitT>>)>>),
          FnT(<<FnT(<<QubitT>>, <<BoolT>>)>>, <<GenSumT(<<<<QubitT>>, <<>>>>)>>),
          ExtT("e1", "D", <<TyArg(ExtT("e1", "D", <<TyArg(QubitT)>>, FromParams(<<0>>)))>>, FromParams(<<0>>)),
          OpaqueT("e1", "P", <<TyArg(OpaqueT("e1", "P", <<TyArg(QubitT)>>, "A")), SeqArg(<<TyArg(TupleT(<<BoolT>>))>>)>>, "C"),
          GenSumT(<<<<TupleT(<<BoolT, BoolT>>)>>, <<OptionT(<<USizeT>>)>>>>)}
Types3(n) == Compound(Reps2, n) \cup WithArgs(Reps2)
=============================================================================
