----------------------------- MODULE NodeHandle -----------------------------
(* Node handles (hugr.hugr.node_port.Node / ToNode): indexing, slicing and iteration over the value outputs
   of a node whose output count is n (n = NoCount when the handle does not know it).
   The property-level definitions (Index, Slice, Iter) are written from Python's sequence semantics on
   range(n) with the two documented deviations; NormImpl / SliceImpl transcribe the algorithm the code uses,
   and TLC checks that the two agree on the whole bounded domain. *)
EXTENDS Integers, Sequences, TLC

NoCount == -1          \* handle without a known number of outputs
None    == 1000        \* Python None for slice fields

Ok(v)  == [res |-> "ok", v |-> v]
Err(e) == [res |-> e, v |-> <<>>]
Min(a, b) == IF a < b THEN a ELSE b
Max(a, b) == IF a > b THEN a ELSE b
Clamp(x, lo, hi) == Max(lo, Min(x, hi))

(* ---- property level ---------------------------------------------------- *)
(* node[i] *)
Index(n, i) ==
  IF n = NoCount THEN (IF i >= 0 THEN Ok(<<i>>) ELSE Err("IndexError"))
  ELSE IF i >= -n /\ i <= n - 1 THEN Ok(<<IF i < 0 THEN i + n ELSE i>>) ELSE Err("IndexError")

(* range(n)[a:b:s] for s > 0, as CPython's slice.indices computes it *)
Steps(start, stop, s) == LET cnt == IF stop > start THEN ((stop - start - 1) \div s) + 1 ELSE 0
                         IN [k \in 1..cnt |-> start + (k - 1) * s]
PyStart(n, a) == IF a = None THEN 0 ELSE Clamp(IF a < 0 THEN a + n ELSE a, 0, n)
PyStop(n, b)  == IF b = None THEN n ELSE Clamp(IF b < 0 THEN b + n ELSE b, 0, n)
PyStep(s)     == IF s = None THEN 1 ELSE s
RangeSlice(n, a, b, s) == Steps(PyStart(n, a), PyStop(n, b), PyStep(s))

(* node[a:b:s]: what slicing range(n) gives, except that a bound below -n is an IndexError *)
Slice(n, a, b, s) ==
  IF n = NoCount THEN
       IF b = None THEN Err("ValueError")                  \* cannot enumerate an unknown number of outputs
       ELSE IF (a # None /\ a < 0) \/ b < 0 THEN Err("IndexError")
       ELSE Ok(Steps(IF a = None THEN 0 ELSE a, b, PyStep(s)))
  ELSE IF (a # None /\ a < -n) \/ (b # None /\ b < -n) THEN Err("IndexError")
  ELSE Ok(RangeSlice(n, a, b, s))

Iter(n) == Slice(n, None, None, None)                        \* list(node) == list(node[:])

(* ---- the algorithm as implemented -------------------------------------- *)
NormImpl(n, i, overflow) ==
  IF n # NoCount /\ ((i >= n /\ ~overflow) \/ i < -n) THEN Err("IndexError")
  ELSE IF n = NoCount /\ i < 0 THEN Err("IndexError")
  ELSE IF i >= 0 /\ n # NoCount THEN Ok(Min(i, n))
  ELSE IF i >= 0 THEN Ok(i)
  ELSE Ok(n + i)
SliceImpl(n, a, b, s) ==
  LET start0 == IF a = None THEN 0 ELSE a                   \* `index.start or 0`
      stop0  == IF b # None THEN b ELSE IF n = NoCount THEN None ELSE n
  IN IF stop0 = None THEN Err("ValueError")
     ELSE LET st == NormImpl(n, start0, TRUE) sp == NormImpl(n, stop0, TRUE) IN
          IF st.res # "ok" THEN st ELSE IF sp.res # "ok" THEN sp
          ELSE Ok(Steps(st.v, sp.v, PyStep(s)))

(* ---- laws --------------------------------------------------------------- *)
Law(n, a, b, s) ==
  LET r == Slice(n, a, b, s) IN
  /\ r = SliceImpl(n, a, b, s)
  /\ (r.res = "ok" /\ n # NoCount) =>
        /\ \A k \in 1..Len(r.v) : r.v[k] >= 0 /\ r.v[k] < n /\ Index(n, r.v[k]) = Ok(<<r.v[k]>>)
        /\ \A k \in 1..(Len(r.v) - 1) : r.v[k + 1] = r.v[k] + PyStep(s)
  /\ (n # NoCount) => Iter(n) = Ok([k \in 1..n |-> k - 1])
IndexLaw(n, i) ==
  /\ (n # NoCount /\ i >= 0 /\ i < n) => Index(n, i) = Index(n, i - n)
  /\ LET r == NormImpl(n, i, FALSE) IN Index(n, i) = (IF r.res = "ok" THEN Ok(<<r.v>>) ELSE r)
=============================================================================
