------------------------------ MODULE Envelope ------------------------------
(* HUGR envelopes (hugr.envelope, hugr.package): a 10-byte header (magic, format byte, flags byte) followed
   by the payload.  Bytes are naturals 0..255.  The payload codec (JSON text, zstd frame) is opaque: only its
   contract is modelled -- the flag bit says whether the payload is a zstd frame, and decoding the payload
   gives back the package document that was encoded. *)
EXTENDS Integers, Sequences, TLC

Magic     == <<72, 85, 71, 82, 105, 72, 74, 118>>            \* "HUGRiHJv"
FmtModule == 1
FmtModuleExts == 2
FmtJson   == 63                                               \* '?'
Formats   == {FmtModule, FmtModuleExts, FmtJson}
Printable == {FmtJson}                                        \* formats that may be carried in a string
Readable  == {FmtJson}                                        \* formats this library can decode
NoLevel   == -1                                               \* zstd level None

Err(e) == [res |-> e, fmt |-> 0, zstd |-> FALSE]

HeaderBytes(fmt, z) == Magic \o <<fmt, 64 + (IF z THEN 1 ELSE 0)>>

DecodeHeader(b) ==
  IF Len(b) < 10 THEN Err("ValueError")
  ELSE IF SubSeq(b, 1, 8) # Magic THEN Err("ValueError")
  ELSE IF b[9] \notin Formats THEN Err("ValueError")
  ELSE [res |-> "ok", fmt |-> b[9], zstd |-> (b[10] % 2 = 1)]

(* ---- the envelope as a one-place channel: Write(package, config) then Read ---- *)
VARIABLES chan,      \* [full, hdr |-> bytes, zframe |-> BOOLEAN, doc |-> package]
          got        \* result of the last Read: [set, ok, doc]
vars == <<chan, got>>
NoDoc == [modules |-> <<>>, extensions |-> <<>>]
Init == /\ chan = [full |-> FALSE, hdr |-> <<>>, zframe |-> FALSE, doc |-> NoDoc]
        /\ got = [set |-> FALSE, ok |-> FALSE, doc |-> NoDoc]
Write(p, fmt, lvl) == /\ fmt \in Readable            \* MODULE formats need the native encoder: not encodable here
                      /\ ~chan.full
                      /\ chan' = [full |-> TRUE, hdr |-> HeaderBytes(fmt, lvl # NoLevel), zframe |-> (lvl # NoLevel), doc |-> p]
                      /\ UNCHANGED got
Read == /\ chan.full /\ ~got.set
        /\ LET h == DecodeHeader(chan.hdr) IN
           got' = IF h.res # "ok" \/ h.fmt \notin Readable \/ h.zstd # chan.zframe
                  THEN [set |-> TRUE, ok |-> FALSE, doc |-> NoDoc] ELSE [set |-> TRUE, ok |-> TRUE, doc |-> chan.doc]
        /\ UNCHANGED chan
RoundTrip == got.set => got.ok /\ got.doc = chan.doc
FlagLaw   == chan.full =>
               /\ Len(chan.hdr) = 10 /\ SubSeq(chan.hdr, 1, 8) = Magic
               /\ (chan.hdr[10] % 2 = 1) = chan.zframe                 \* bit 0 <=> payload compressed
               /\ chan.hdr[10] \div 64 = 1                            \* bits 7,6 = 0,1
               /\ (chan.hdr[10] \div 2) % 32 = 0                      \* reserved bits clear
HeaderInverse == \A f \in Formats, z \in BOOLEAN :
                   DecodeHeader(HeaderBytes(f, z)) = [res |-> "ok", fmt |-> f, zstd |-> z]
=============================================================================
