--------------------------- MODULE SchemaAgreement ---------------------------
(* C17 (exploration): base documents for the differential acceptance test between the published JSON schema and the
   Python codec -- one well-formed document per constructor path of the wire vocabulary (every op kind, type, param,
   arg, value), wrapped as the testing / HUGR root models expect.  The single-point mutations (delete a key, add an
   unknown key, unknown discriminator, container := 7, scalar := []) are applied to every position of every base
   document by the harness. *)
EXTENDS MC_Ops
VARIABLES kind, x
OpKinds == {w.op : w \in WireOps}
Richest(S) == CHOOSE a \in S : \A b \in S : Len(ToString(a)) >= Len(ToString(b))
OpReps == {Richest({w \in WireOps : w.op = k}) : k \in OpKinds} \cup {CHOOSE w \in {v \in WireOps : v.op = k} : TRUE : k \in OpKinds}
TypeReps == {QubitT, USizeT, BoolT, UnitSumT(0), Var(0, "C"), RowVar(1, "A"), AliasT("al", "A"), FnTR(<<QubitT>>, <<BoolT, USizeT>>, <<"e1">>),
             GenSumT(<<<<QubitT>>, <<>>, <<BoolT, BoolT>>>>), GenSumT(<<>>),
             OpaqueT("e1", "P", <<TyArg(QubitT), NatArg(3), StrArg("s"), SeqArg(<<TyArg(BoolT), NatArg(1)>>), ExtsArg(<<"e1">>), VarArg(0, ParamNat(7))>>, "A")}
ParamReps == Params2
ValReps == SmallVals
PolyReps == {PolyId, PolyRow, PolyNat, PolyNatU, Poly(<<>>, FnT(<<BoolT>>, <<>>))}
SInit == /\ o = [op |-> "Module"]
         /\ \/ kind = "optype" /\ x \in {[parent |-> 0] @@ w : w \in OpReps}
            \/ kind = "typ" /\ x \in TypeReps
            \/ kind = "sum_type" /\ x \in {t \in TypeReps : t.t = "Sum"}
            \/ kind = "poly_func_type" /\ x \in PolyReps
            \/ kind = "value" /\ x \in ValReps
            \/ kind = "hugr" /\ x \in {<<[parent |-> 0, op |-> "Module"], [parent |-> 0] @@ w>> : w \in OpReps}
SNext == UNCHANGED <<kind, x, o>>
SEmit == PrintT(ToJson([kind |-> kind, x |-> x]))
=============================================================================
