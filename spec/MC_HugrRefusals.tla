--------------------------- MODULE MC_HugrRefusals ---------------------------
(* Enumerates the parameter space of every refusal class and prints the expected outcome of each situation. *)
EXTENDS HugrRefusals, Json, IOUtils
VARIABLES cls, p
Toks == {"B", "Q", "I"}
Rows == UNION {[1..n -> Toks] : n \in 0..2}
Unset == <<"unset">>
(* the hierarchy of the "world" HUGR the harness builds (read back from the real object): [par, kind] *)
World == JsonDeserialize(IOEnv.WORLD_FILE)
WPar == [n \in 0..(Len(World.par) - 1) |-> World.par[n + 1]]
WKind == [n \in 0..(Len(World.kind) - 1) |-> World.kind[n + 1]]
WNodes == 0..(Len(World.par) - 1)
Init ==
  \/ cls = "CaseOutputs" /\ p \in [est : Rows \cup {Unset}, row : Rows, via : {"add_conditional", "if_else", "nested"}]
  \/ cls = "CaseIndex" /\ p \in [n : 1..3, built : SUBSET (0..2), i : -2..4] /\ p.built \subseteq 0..(p.n - 1)
  \/ cls = "ExitContext" /\ p \in [n : 1..3, built : SUBSET (0..2)] /\ p.built \subseteq 0..(p.n - 1)
  \/ cls = "ExitBranch" /\ p \in [est : Rows \cup {Unset}, row : Rows]
  \/ cls = "FunctionOutputs" /\ p \in [declared : Rows \cup {<<"undeclared">>}, row : Rows, via : {"define_function", "declare_outputs"}]
  \/ cls = "PolyUse" /\ p \in [nparams : 0..2, ntypeargs : 0..2, inst : BOOLEAN, via : {"call", "load_function", "Call", "LoadFunc"}]
  \/ cls = "CallTarget" /\ p \in [kind : {"FuncDefn", "FuncDecl", "Const", "Input", "DFG", "Extension", "LoadConstant"}]
  \/ cls = "WireSource" /\ p \in [kind : {"Value", "Const", "Function"}]
  \/ cls = "IntArg" /\ p \in [tracking : BOOLEAN, tracked : BOOLEAN, via : {"add", "extend", "set_indexed_outputs"}]
  \/ cls = "Incomplete" /\ p \in [what : {"dfg-no-outputs", "conditional-unset-case", "cfg-no-exit", "tail-loop-no-outputs", "function-no-outputs", "nested-open"}]
  \/ cls = "Wire" /\ p \in [s : {World.sources[k] : k \in 1..Len(World.sources)}, t : {World.targets[k] : k \in 1..Len(World.targets)}]
Next == UNCHANGED <<cls, p>>
Outcome ==
  CASE cls = "CaseOutputs" -> CaseOutputs(p.est, p.row)
    [] cls = "CaseIndex" -> CaseIndex(p.n, p.built, p.i)
    [] cls = "ExitContext" -> ExitContext(p.n, p.built)
    [] cls = "ExitBranch" -> ExitBranch(p.est, p.row)
    [] cls = "FunctionOutputs" -> FunctionOutputs(p.declared, p.row)
    [] cls = "PolyUse" -> PolyUse(p.nparams, p.ntypeargs, p.inst)
    [] cls = "CallTarget" -> CallTarget(p.kind)
    [] cls = "WireSource" -> WireSource(p.kind)
    [] cls = "IntArg" -> IntArg(p.tracking, p.tracked)
    [] cls = "Incomplete" -> "IncompleteOp"
    [] cls = "Wire" -> WireOutcome(WPar, WKind, p.s, p.t)
Emit == PrintT(ToJson([cls |-> cls, p |-> p, outcome |-> Outcome,
                       rel |-> IF cls = "Wire" THEN TrueRelation(WPar, WKind, p.s, p.t) ELSE ""]))
=============================================================================
