-------------------------------- MODULE Render --------------------------------
(* C20: the Graphviz drawing of a HUGR, judged against the HUGR it was made from.
     st -- projection of the HUGR through its public queries:
           nodes <<[idx, parent, nin, nout, name, haskids]>>   (parent = idx for the root)
           links <<[s, so, t, to, label]>>                      (label = type string for value edges, "" otherwise)
     g  -- the parsed DOT source:
           nodes    <<[id, label, ins, outs, within]>>   ins/outs = the PORT cells in order; within = id of the innermost cluster (-1: none)
           clusters <<[id, within]>>
           edges    <<[s, sp, t, tp, label]>>            sp / tp = port names such as "out.0" / "in.-1"
   Render is an action that leaves the HUGR unchanged (checked by comparing st before and after). *)
EXTENDS Integers, Sequences, FiniteSets, TLC

ToSetR(s) == {s[i] : i \in 1..Len(s)}
Count(s, x) == Cardinality({i \in 1..Len(s) : s[i] = x})
StNode(st, i) == CHOOSE n \in ToSetR(st.nodes) : n.idx = i
Ids(st) == {n.idx : n \in ToSetR(st.nodes)}
PortNames(prefix, k) == [i \in 1..k |-> prefix \o ToString(i - 1)]

(* one node statement per HUGR node, carrying the display name and one cell per port *)
NodesOnce(st, g) ==
  /\ \A i \in Ids(st) : Cardinality({k \in 1..Len(g.nodes) : g.nodes[k].id = i}) = 1
  /\ \A k \in 1..Len(g.nodes) : g.nodes[k].id \in Ids(st)
  /\ \A k \in 1..Len(g.nodes) :
       LET n == StNode(st, g.nodes[k].id) IN
       /\ g.nodes[k].label = n.name
       /\ g.nodes[k].ins = PortNames("in.", n.nin)           \* one cell per input port, in order
       /\ g.nodes[k].outs = PortNames("out.", n.nout)
(* one cluster per node that has children, nested exactly as the hierarchy *)
ClustersMirror(st, g) ==
  /\ {c.id : c \in ToSetR(g.clusters)} = {n.idx : n \in {m \in ToSetR(st.nodes) : m.haskids}}
  /\ \A c \in ToSetR(g.clusters) : Cardinality({k \in 1..Len(g.clusters) : g.clusters[k].id = c.id}) = 1
  /\ \A c \in ToSetR(g.clusters) :
       LET n == StNode(st, c.id) IN c.within = (IF n.parent = n.idx THEN -1 ELSE n.parent)
  /\ \A k \in 1..Len(g.nodes) :
       LET n == StNode(st, g.nodes[k].id) IN
       g.nodes[k].within = (IF n.haskids THEN n.idx ELSE IF n.parent = n.idx THEN -1 ELSE n.parent)
(* one edge statement per link, with the right endpoints; value edges labelled by their type *)
EdgeOfLink(l) == [s |-> l.s, sp |-> "out." \o ToString(l.so), t |-> l.t, tp |-> "in." \o ToString(l.to), label |-> l.label]
EdgesOnce(st, g) ==
  LET want == [k \in 1..Len(st.links) |-> EdgeOfLink(st.links[k])] IN
  /\ Len(g.edges) = Len(want)
  /\ \A e \in ToSetR(want) \cup ToSetR(g.edges) : Count(g.edges, e) = Count(want, e)
DrawingFaithful(st, g) == NodesOnce(st, g) /\ ClustersMirror(st, g) /\ EdgesOnce(st, g)
DrawingFailing(st, g) ==
  (IF NodesOnce(st, g) THEN {} ELSE {"NodesOnce"}) \cup
  (IF ~NodesOnce(st, g) THEN {} ELSE (IF ClustersMirror(st, g) THEN {} ELSE {"ClustersMirror"})) \cup
  (IF EdgesOnce(st, g) THEN {} ELSE {"EdgesOnce"})
=============================================================================
