------------------------------- MODULE MC_Vals -------------------------------
(* C14 and C05 (values): one initial state per value expression built with the helper constructors. *)
EXTENDS HugrStd, Json
CONSTANTS Depth, MaxW
VARIABLE v
Widths == 0..MaxW
V0 == {UnitSumV(t, s) : <<t, s>> \in {<<a, b>> \in (0..2) \X (1..3) : a < b}}
      \cup {IntV(w, 3) : w \in Widths} \cup {IntV(5, 0), FloatV("#f1"), StringV("s"), StringV("ü"), FuncV(<<BoolT>>), FuncV(<<>>),
            FuncRebound(<<BoolT>>, <<QubitT, BoolT>>), FuncRebound(<<>>, <<BoolT>>), FuncDelta(<<BoolT>>, <<"verif.ext">>)}
(* a few representatives used as fields of compound values *)
F0 == {UnitSumV(1, 2), IntV(5, 3), FloatV("#f1"), FuncV(<<BoolT>>), UnitSumV(0, 1)}
ElemTys == {BoolT, IntT(5), TupleT(<<BoolT, BoolT>>), OptionT(<<BoolT>>), QubitT}
CompoundV(F) ==
  LET Fs == SeqsUpTo(F, 2) IN
       {TupleV(fs) : fs \in Fs} \cup {SomeV(fs) : fs \in Fs}
  \cup {NoneV(ts) : ts \in SeqsUpTo({BoolT, IntT(3), QubitT}, 2)}
  \cup {NoneV(<<OptionT(<<BoolT>>)>>), NoneV(<<OptionT(<<>>)>>), NoneV(<<TupleT(<<BoolT>>)>>)}      \* the absent value of a nested option: Option(Option(Bool))
  \cup {LeftV(fs, ts) : fs \in Fs, ts \in {<<>>, <<BoolT>>, <<QubitT, IntT(5)>>}}
  \cup {RightV(ts, fs) : fs \in Fs, ts \in {<<>>, <<BoolT>>, <<QubitT, IntT(5)>>}}
  \cup {SumV(1, GenSumT(<<<<QubitT>>, TypesOfS(fs), <<>>>>), fs) : fs \in Fs}        \* a well-typed general sum value, tag 1 of 3
  \cup {SumV(2, GenSumT(<<<<QubitT>>, <<BoolT>>, <<>>>>), <<>>)}
(* homogeneous collections: elements all of the declared element type *)
OfType(F, t) == {f \in F : SameT(TypeOfS(f), t)}
Collections(F) ==
  UNION {LET E == SeqsUpTo(OfType(F, t), 2) IN
           {ArrayV(t, vs) : vs \in E} \cup {ListV(t, vs) : vs \in E}
           \cup (IF Bound(t) = "C" THEN {SArrayV(t, vs, nm) : vs \in E, nm \in {"arr"}} ELSE {})
         : t \in ElemTys}
V1 == CompoundV(F0) \cup Collections(F0 \cup {TupleV(<<UnitSumV(1, 2), UnitSumV(0, 2)>>), SomeV(<<UnitSumV(1, 2)>>), NoneV(<<BoolT>>)})
F1 == {TupleV(<<UnitSumV(1, 2), IntV(5, 3)>>), SomeV(<<IntV(5, 3)>>), NoneV(<<BoolT>>), LeftV(<<UnitSumV(0, 1)>>, <<BoolT>>),
       ArrayV(BoolT, <<UnitSumV(1, 2), UnitSumV(0, 2)>>), ListV(IntT(5), <<>>), SumV(1, GenSumT(<<<<QubitT>>, <<BoolT>>, <<>>>>), <<UnitSumV(1, 2)>>)}
V2 == CompoundV(F1) \cup {ArrayV(TypeOfS(f), <<f, f>>) : f \in F1} \cup {ListV(TypeOfS(f), <<f>>) : f \in F1}
F2 == {TupleV(<<SomeV(<<IntV(5, 3)>>), ArrayV(BoolT, <<UnitSumV(1, 2)>>)>>), ArrayV(OptionT(<<IntT(5)>>), <<SomeV(<<IntV(5, 3)>>), NoneV(<<IntT(5)>>)>>),
       RightV(<<QubitT>>, <<TupleV(<<FuncV(<<BoolT>>), UnitSumV(2, 3)>>)>>)}
V3 == CompoundV(F2) \cup {ArrayV(TypeOfS(f), <<f>>) : f \in F2}
Vals == V0 \cup V1 \cup (IF Depth >= 2 THEN V2 ELSE {}) \cup (IF Depth >= 3 THEN V3 ELSE {})
Init == v \in Vals
Next == UNCHANGED v
Laws ==
  /\ InhabitsS(v)                                             \* C14
  /\ SameT(WireTypeOf(EncValS(v)), TypeOfS(v))                 \* the serialized form carries the reported type
  /\ (v.v = "Int" => TypeOfS(v) = IntT(v.w))
ConstOp == [op |-> "Const", v |-> EncValS(v)]
Emit == PrintT(ToJson([v |-> v, enc |-> EncValS(v), typ |-> Desugar(TypeOfS(v)), std |-> IsStdV(v),
                       ext |-> IF IsStdV(v) THEN DefExt(v) ELSE "",
                       static |-> PortKind(ConstOp, "out", 0), static_type |-> StaticType(ConstOp),
                       load |-> DfSig([op |-> "LoadConstant", datatype |-> Desugar(TypeOfS(v))])]))
=============================================================================
