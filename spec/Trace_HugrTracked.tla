-------------------------- MODULE Trace_HugrTracked --------------------------
(* Validation of executions recorded from a real TrackedDfg: each event is one call with its arguments, the outcome
   and, afterwards, the builder's tracked list and the links of the HUGR built so far (as the explicit program). *)
EXTENDS HugrTracked, Json, IOUtils, TLCExt
Traces == JsonDeserialize(IOEnv.TRACE_FILE)
VARIABLES tid, l
tvars == <<vars, tid, l>>
ArityDef == [N |-> <<1, 1>>, D |-> <<2, 2>>, M |-> <<1, 2>>]
TInit == Init /\ tid \in 1..Len(Traces) /\ l = 1
Step(e) ==
  CASE e.a = "TrackWire" -> TrackWire(e.w)
    [] e.a = "TrackInputs" -> TrackInputs
    [] e.a = "Untrack" -> Untrack(e.i)
    [] e.a = "Add" -> Add(e.op, e.args, e.m)
    [] e.a = "SetIndexedOutputs" -> SetIndexedOutputs(e.args)
    [] e.a = "SetTrackedOutputs" -> SetTrackedOutputs
TNext == /\ l <= Len(Traces[tid])
         /\ LET e == Traces[tid][l] IN
            /\ Step(e)
            /\ res'.k = e.res.k
            /\ (e.res.k = "index" => res'.i = e.res.i)
            /\ (e.res.k = "wire" => res'.w = e.res.w)
            /\ (e.res.k = "indices" => res'.is = e.res.is)
            /\ (e.res.k # "IndexError" =>
                  /\ tracked' = e.tracked                                     \* the builder's own tracked list
                  /\ [n \in 1..Len(cmds') |-> [op |-> cmds'[n].op, ins |-> cmds'[n].ins, meta |-> cmds'[n].meta]] = e.cmds
                  /\ (closed' => outs' = e.outs))
         /\ l' = l + 1 /\ UNCHANGED tid
TLaws == [][FreedForGood /\ OnlyGrows]_tvars
Progress == TLCSet(tid, l)
InitRegs == \A i \in 1..Len(Traces) : TLCSet(i, 0)
TInit2 == InitRegs /\ TInit
Accepted == LET bad == {i \in 1..Len(Traces) : TLCGet(i) # Len(Traces[i]) + 1} IN
            IF bad = {} THEN TRUE ELSE PrintT(ToJson([rejected |-> {<<i, TLCGet(i)>> : i \in bad}])) /\ FALSE
=============================================================================
