------------------------------ MODULE HugrTracked ------------------------------
(* hugr.build.tracked_dfg.TrackedDfg: a dataflow builder that additionally keeps a list `tracked` of wires
   addressed by integer index.  A wire is <<node, port>>; node 0 is the Input node (Width outputs), command k
   (1-based) creates node k.  `cmds` is the *explicit* program: every command with its integer arguments
   replaced by the wires they denoted when the command was added -- by C15 the HUGR built is exactly the one a
   plain Dfg builds from `cmds`.  Arguments: [k |-> "idx", i |-> n] or [k |-> "wire", w |-> <<node, port>>]. *)
EXTENDS Integers, Sequences, FiniteSets, TLC

CONSTANTS Width,          \* number of inputs of the dataflow graph
          Ops,            \* op tokens; Arity[op] = <<number of inputs, number of outputs>>
          Arity, Metas
None == <<-1, -1>>

VARIABLES tracked,        \* Seq(wire or None)
          cmds,           \* Seq([op, ins, meta]) -- the explicit program
          outs,           \* the wires given to set_outputs
          closed,         \* set_outputs was called
          res
vars == <<tracked, cmds, outs, closed, res>>

NodeOuts(n) == IF n = 0 THEN Width ELSE Arity[cmds[n].op][2]
Wires == {<<n, p>> : n \in 0..Len(cmds), p \in 0..3} 
ValidWire(w) == w[1] >= 0 /\ w[1] <= Len(cmds) /\ w[2] >= 0 /\ w[2] < NodeOuts(w[1])
Idx(i) == [k |-> "idx", i |-> i]
Wr(w)  == [k |-> "wire", w |-> w]
IsTracked(i) == i >= 0 /\ i < Len(tracked) /\ tracked[i + 1] # None
Denotes(a) == IF a.k = "idx" THEN tracked[a.i + 1] ELSE a.w            \* the wire an argument denotes *now*
ArgOK(a) == IF a.k = "idx" THEN IsTracked(a.i) ELSE ValidWire(a.w)

Init == tracked = <<>> /\ cmds = <<>> /\ outs = <<>> /\ closed = FALSE /\ res = [k |-> "init"]
Open == ~closed

TrackWire(w) == /\ Open /\ ValidWire(w)
                /\ tracked' = Append(tracked, w) /\ res' = [k |-> "index", i |-> Len(tracked)]
                /\ UNCHANGED <<cmds, outs, closed>>
TrackInputs == /\ Open
               /\ tracked' = tracked \o [p \in 1..Width |-> <<0, p - 1>>]
               /\ res' = [k |-> "indices", is |-> [p \in 1..Width |-> Len(tracked) + p - 1]]
               /\ UNCHANGED <<cmds, outs, closed>>
(* untracking frees an index for good *)
Untrack(i) == /\ Open
              /\ IF IsTracked(i) THEN /\ tracked' = [tracked EXCEPT ![i + 1] = None]
                                      /\ res' = [k |-> "wire", w |-> tracked[i + 1]]
                 ELSE UNCHANGED tracked /\ res' = [k |-> "IndexError"]
              /\ UNCHANGED <<cmds, outs, closed>>
(* add(op(args)): connect the wires currently denoted, then re-bind every integer argument to the new node's output
   at the argument's position (positions in argument order; a later position wins) *)
RECURSIVE Rebind(_, _, _, _)
Rebind(tr, args, n, p) == IF p > Len(args) THEN tr
                          ELSE Rebind(IF args[p].k = "idx" THEN [tr EXCEPT ![args[p].i + 1] = <<n, p - 1>>] ELSE tr, args, n, p + 1)
Add(op, args, m) ==
  /\ Open /\ Len(args) = Arity[op][1]
  /\ \A p \in 1..Len(args) : args[p].k = "wire" => ValidWire(args[p].w)
  /\ IF \A p \in 1..Len(args) : ArgOK(args[p])
       THEN /\ cmds' = Append(cmds, [op |-> op, ins |-> [p \in 1..Len(args) |-> Denotes(args[p])], meta |-> m])
            /\ tracked' = Rebind(tracked, args, Len(cmds) + 1, 1)
            /\ res' = [k |-> "node", n |-> Len(cmds) + 1]
       ELSE UNCHANGED <<cmds, tracked>> /\ res' = [k |-> "IndexError"]       \* (partial effects of the failed call are not compared)
  /\ UNCHANGED <<outs, closed>>
SetIndexedOutputs(args) ==
  /\ Open /\ \A p \in 1..Len(args) : args[p].k = "wire" => ValidWire(args[p].w)
  /\ IF \A p \in 1..Len(args) : ArgOK(args[p])
       THEN outs' = [p \in 1..Len(args) |-> Denotes(args[p])] /\ closed' = TRUE /\ res' = [k |-> "ok"]
       ELSE UNCHANGED <<outs, closed>> /\ res' = [k |-> "IndexError"]
  /\ UNCHANGED <<tracked, cmds>>
SetTrackedOutputs ==
  /\ Open
  /\ outs' = SelectSeq(tracked, LAMBDA w : w # None) /\ closed' = TRUE /\ res' = [k |-> "ok"]      \* the tracked wires in index order
  /\ UNCHANGED <<tracked, cmds>>

(* ---- C15 ---------------------------------------------------------------------------------------- *)
(* an index never comes back: once None, always None; indices are handed out in order *)
FreedForGood == \A i \in 1..Len(tracked) : tracked[i] = None => (Len(tracked') >= i /\ tracked'[i] = None)
OnlyGrows == Len(tracked') >= Len(tracked)
(* the links of the HUGR: for every command and argument position the wire recorded in cmds, plus the outputs *)
Links == {<<cmds[n].ins[p], <<n, p - 1>>>> : <<n, p>> \in {<<a, b>> \in (1..Len(cmds)) \X (1..4) : b <= Len(cmds[a].ins)}}
WellWired == \A l \in Links : l[1][1] < l[2][1] /\ l[1][2] < (IF l[1][1] = 0 THEN Width ELSE Arity[cmds[l[1][1]].op][2])
=============================================================================
