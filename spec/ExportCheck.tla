------------------------------ MODULE ExportCheck ------------------------------
(* C->S for the model export: TLC reads pairs [name, nodes, edges, metakeys, exp] and judges each with ModelExport. *)
EXTENDS ModelExport, Json, IOUtils
Docs == JsonDeserialize(IOEnv.DOCS_FILE)
VARIABLE i
Init == i \in 1..Len(Docs)
Next == UNCHANGED i
Verdict == PrintT(ToJson([name |-> Docs[i].name, idx |-> i, failing |-> ExportFailing(Docs[i], Docs[i].exp)]))
=============================================================================
