------------------------------- MODULE HugrStd -------------------------------
(* The typed helpers of the Python package (std types, std constants, prelude sugar operations) as
   object-view terms, with the wire form their serialization must have.  The bound specifications of the
   std type definitions are constants read from specification/std_extensions at run time. *)
EXTENDS HugrTerms

CONSTANTS IntBSpec, FloatBSpec, StringBSpec, ArrBSpec, LstBSpec, SArrBSpec,
          PreludeDesc     \* descriptions of the prelude op definitions MakeTuple / UnpackTuple / Noop (record)

IntT(w)      == ExtT("arithmetic.int.types", "int", <<NatArg(w)>>, IntBSpec)
FloatT       == ExtT("arithmetic.float.types", "float64", <<>>, FloatBSpec)
StringT      == ExtT("prelude", "string", <<>>, StringBSpec)
ArrayT(n, e) == ExtT("collections.array", "array", <<NatArg(n), TyArg(e)>>, ArrBSpec)
ListT(e)     == ExtT("collections.list", "List", <<TyArg(e)>>, LstBSpec)
SArrayT(e)   == ExtT("collections.static_array", "static_array", <<TyArg(e)>>, SArrBSpec)

(* ---- std constants (object view) ---- *)
IntV(w, n)     == [v |-> "Int", w |-> w, n |-> n]
FloatV(tok)    == [v |-> "Float", f |-> tok]             \* tok: token bound to a float by the adapter
StringV(s)     == [v |-> "String", s |-> s]
ArrayV(e, vs)  == [v |-> "Array", elem |-> e, vs |-> vs]
ListV(e, vs)   == [v |-> "List", elem |-> e, vs |-> vs]
SArrayV(e, vs, nm) == [v |-> "StaticArray", elem |-> e, vs |-> vs, name |-> nm]
UnitSumV(tag, size) == [v |-> "UnitSum", tag |-> tag, size |-> size]
SomeV(vs)      == [v |-> "Some", vs |-> vs]
NoneV(ts)      == [v |-> "None", tys |-> ts]
LeftV(vs, ts)  == [v |-> "Left", vs |-> vs, tys |-> ts]
RightV(ts, vs) == [v |-> "Right", tys |-> ts, vs |-> vs]
TupleV(vs)     == [v |-> "Tuple", vs |-> vs]
SumV(tag, typ, vs) == [v |-> "Sum", tag |-> tag, typ |-> typ, vs |-> vs]
(* a function-valued constant: a 3-node DFG  Input -> Output  over row r *)
IdDoc(r) == [nodes |-> <<[op |-> "DFG", parent |-> 0, signature |-> FnT(r, r)],
                         [op |-> "Input", parent |-> 0, types |-> r], [op |-> "Output", parent |-> 0, types |-> r]>>,
             edges |-> [i \in 1..Len(r) |-> <<<<1, i - 1>>, <<2, i - 1>>>>]]
FuncV(r) == [v |-> "Function", hugr |-> IdDoc(r), sig |-> FnT(r, r)]
(* ... whose root DFG declares extension requirements: the constant's type carries them *)
IdDocR(r, reqs) == [IdDoc(r) EXCEPT !.nodes[1].signature = FnTR(r, r, reqs)]
FuncDelta(r, reqs) == [v |-> "Function", hugr |-> IdDocR(r, reqs), sig |-> FnTR(r, r, reqs)]

(* the same Python object after its public `body` field was re-assigned: first body over row r1 (and its type
   inspected), then body over row r2.  It denotes FuncV(r2). *)
FuncRebound(r1, r2) == [v |-> "Function", hugr |-> IdDoc(r2), sig |-> FnT(r2, r2), first |-> r1]

IsStdV(v) == v.v \in {"Int", "Float", "String", "Array", "List", "StaticArray"}

RECURSIVE TypeOfS(_)
TypesOfS(vs) == [i \in 1..Len(vs) |-> TypeOfS(vs[i])]
TypeOfS(v) ==
  CASE v.v = "Int" -> IntT(v.w)
    [] v.v = "Float" -> FloatT
    [] v.v = "String" -> StringT
    [] v.v = "Array" -> ArrayT(Len(v.vs), v.elem)
    [] v.v = "List" -> ListT(v.elem)
    [] v.v = "StaticArray" -> SArrayT(v.elem)
    [] v.v = "Sum" -> v.typ
    [] v.v = "Tuple" -> TupleT(TypesOfS(v.vs))
    [] v.v = "Function" -> v.sig
    [] v.v = "UnitSum" -> UnitSumT(v.size)
    [] v.v = "Some" -> OptionT(TypesOfS(v.vs))
    [] v.v = "None" -> OptionT(v.tys)
    [] v.v = "Left" -> EitherT(TypesOfS(v.vs), v.tys)
    [] v.v = "Right" -> EitherT(v.tys, TypesOfS(v.vs))
DefExt(v) == CASE v.v = "Int" -> "arithmetic.int.types" [] v.v = "Float" -> "arithmetic.float.types" [] v.v = "String" -> "prelude"
               [] v.v = "Array" -> "collections.array" [] v.v = "List" -> "collections.list" [] v.v = "StaticArray" -> "collections.static_array"

RECURSIVE EncValS(_)
EncValsS(vs) == [i \in 1..Len(vs) |-> EncValS(vs[i])]
Payload(v) ==
  CASE v.v = "Int" -> [c |-> "ConstInt", v |-> [log_width |-> v.w, value |-> v.n]]
    [] v.v = "Float" -> [c |-> "ConstF64", v |-> [value |-> v.f]]
    [] v.v = "String" -> [c |-> "ConstString", v |-> [value |-> v.s]]
    [] v.v = "Array" -> [c |-> "ArrayValue", v |-> [values |-> EncValsS(v.vs), typ |-> Desugar(v.elem)]]
    [] v.v = "List" -> [c |-> "ListValue", v |-> [values |-> EncValsS(v.vs), typ |-> Desugar(v.elem)]]
    [] v.v = "StaticArray" -> [c |-> "StaticArrayValue", v |-> [value |-> [values |-> EncValsS(v.vs), typ |-> Desugar(v.elem)], name |-> v.name]]
EncValS(v) ==
  CASE IsStdV(v) -> [v |-> "Extension", extensions |-> <<DefExt(v)>>, typ |-> Desugar(TypeOfS(v)), value |-> Payload(v)]
    [] v.v = "Tuple" -> [v |-> "Tuple", vs |-> EncValsS(v.vs)]
    [] v.v = "Function" -> [v |-> "Function", hugr |-> v.hugr]
    [] OTHER -> [v |-> "Sum", tag |-> TagOf(v), typ |-> Desugar(TypeOfS(v)), vs |-> EncValsS(FieldsOf(v))]

(* C14: the serialized form inhabits the reported type *)
RECURSIVE InhabitsS(_)
InhabitsS(v) ==
  CASE IsStdV(v) ->
         /\ DefExt(v) = TypeOfS(v).extension                                    \* names its defining extension
         /\ (v.v \in {"Array", "List", "StaticArray"} =>
               /\ \A i \in 1..Len(v.vs) : SameT(TypeOfS(v.vs[i]), v.elem) /\ InhabitsS(v.vs[i])
               /\ v.v = "Array" => TypeOfS(v).args[1] = NatArg(Len(v.vs)))
    [] v.v = "Function" -> v.sig = FnTR(InnerSig(v.hugr.nodes[1])[1], InnerSig(v.hugr.nodes[1])[2], v.hugr.nodes[1].signature.runtime_reqs)
    [] OTHER -> LET rows == SumRows(TypeOfS(v)) tag == TagOf(v) fs == FieldsOf(v) IN
                /\ tag >= 0 /\ tag < Len(rows)
                /\ Len(fs) = Len(rows[tag + 1])
                /\ \A i \in 1..Len(fs) : SameT(TypeOfS(fs[i]), rows[tag + 1][i]) /\ InhabitsS(fs[i])

(* ---- sugar operations (object view) and their wire form ---- *)
MakeTupleOp(ts)   == [op |-> "MakeTuple", types |-> ts]
UnpackTupleOp(ts) == [op |-> "UnpackTuple", types |-> ts]
NoopOp(t)         == [op |-> "Noop", ty |-> t]
SomeOp(ts)        == [op |-> "Some", tys |-> ts]
LeftOp(l, r)      == [op |-> "Left", left |-> l, right |-> r]
RightOp(l, r)     == [op |-> "Right", left |-> l, right |-> r]
ContinueOp(l, r)  == [op |-> "Continue", left |-> l, right |-> r]
BreakOp(l, r)     == [op |-> "Break", left |-> l, right |-> r]
(* a definition-backed extension operation: `defsig` is the definition's type scheme ([params, body]),
   `cached` the concrete signature stored on the operation (none = [none |-> TRUE], allowed only for a
   monomorphic definition), `ddesc` the definition's description *)
ExtOpOp(e, n, defsig, cached, args, ddesc) ==
  [op |-> "ExtOp", extension |-> e, name |-> n, defsig |-> defsig, cached |-> cached, args |-> args, ddesc |-> ddesc]
NoSig == [none |-> TRUE]
IsSugarOp(o) == o.op \in {"MakeTuple", "UnpackTuple", "Noop", "Some", "Left", "Right", "Continue", "Break", "ExtOp"}
TyArgs(ts) == [i \in 1..Len(ts) |-> TyArg(Desugar(ts[i]))]
ExtensionOp(e, n, sig, args) == [op |-> "Extension", extension |-> e, name |-> n, signature |-> sig, description |-> PreludeDesc[n], args |-> args]
EncOp(o) ==
  CASE o.op = "MakeTuple" -> ExtensionOp("prelude", "MakeTuple", Desugar(FnTR(o.types, <<TupleT(o.types)>>, <<"prelude">>)), <<SeqArg(TyArgs(o.types))>>)
    [] o.op = "UnpackTuple" -> ExtensionOp("prelude", "UnpackTuple", Desugar(FnTR(<<TupleT(o.types)>>, o.types, <<"prelude">>)), <<SeqArg(TyArgs(o.types))>>)
    [] o.op = "Noop" -> ExtensionOp("prelude", "Noop", Desugar(FnTR(<<o.ty>>, <<o.ty>>, <<"prelude">>)), <<TyArg(Desugar(o.ty))>>)
    [] o.op = "ExtOp" -> [op |-> "Extension", extension |-> o.extension, name |-> o.name,
                          signature |-> Desugar(IF Has(o.cached, "none") THEN o.defsig.body ELSE o.cached),
                          description |-> o.ddesc, args |-> [i \in 1..Len(o.args) |-> DesugarArg(o.args[i])]]
    [] o.op = "Some" -> [op |-> "Tag", tag |-> 1, variants |-> <<<<>>, DesugarRow(o.tys)>>]
    [] o.op \in {"Left", "Continue"} -> [op |-> "Tag", tag |-> 0, variants |-> <<DesugarRow(o.left), DesugarRow(o.right)>>]
    [] o.op \in {"Right", "Break"} -> [op |-> "Tag", tag |-> 1, variants |-> <<DesugarRow(o.left), DesugarRow(o.right)>>]
    [] OTHER -> o
=============================================================================
