---------------------------- MODULE MC_HugrStore ----------------------------
(* Emission wrapper for HugrStore: action path in `hist` (hidden by VIEW for the exhaustive run, kept for
   simulation walks) and one JSON line per explored transition. *)
EXTENDS HugrStore, Json
CONSTANTS Stores,         \* {1} : only store A evolves;  {1, 2} : both
          AllowInsert, MaxHist,
          StopAfterInsert, \* TRUE: insert_hugr ends the behaviour (keeps the two-store product finite and small)
          Counts          \* output counts requested by add_node (NoCount = none given)
VARIABLE hist
OffsetsAll == {-1, 0, 1}
OffsetsTwo == {-1, 0}
CountsAll == {NoCount, 0, 2}
CountsOne == {NoCount}
CountsTwo == {NoCount, 2}
Ev(a, i, x) == [a |-> a, i |-> i] @@ x
MCInit == Init /\ hist = <<>>
MCNext ==
  /\ Len(hist) < MaxHist
  /\ (StopAfterInsert => res.k # "mapping")
  /\ \/ \E i \in Stores, p \in 0..MaxNodes, o \in OpToks, cnt \in Counts, m \in MetaToks :
          AddNode(i, p, o, cnt, m) /\ hist' = Append(hist, Ev("AddNode", i, [p |-> p, o |-> o, cnt |-> cnt, m |-> m]))
     \/ \E i \in Stores, sn, dn \in 0..MaxNodes, so, do \in Offsets :
          \/ AddLink(i, sn, so, dn, do) /\ hist' = Append(hist, Ev("AddLink", i, [sn |-> sn, so |-> so, dn |-> dn, do |-> do]))
          \/ DeleteLink(i, sn, so, dn, do) /\ hist' = Append(hist, Ev("DeleteLink", i, [sn |-> sn, so |-> so, dn |-> dn, do |-> do]))
     \/ \E i \in Stores, a, b \in 0..MaxNodes :
          AddOrderLink(i, a, b) /\ hist' = Append(hist, Ev("AddOrderLink", i, [sn |-> a, dn |-> b]))
     \/ \E i \in Stores, n \in 0..MaxNodes :
          \/ DeleteNode(i, n) /\ hist' = Append(hist, Ev("DeleteNode", i, [n |-> n]))
          \/ TouchDead(i, n) /\ hist' = Append(hist, Ev("TouchDead", i, [n |-> n]))
     \/ AllowInsert /\ \E p \in 0..MaxNodes : InsertHugr(p) /\ hist' = Append(hist, Ev("InsertHugr", 1, [p |-> p]))
     \/ AllowInsert /\ st[2].meta[0] = "none" /\ st[2].live = {0} /\                       \* metadata on the root of the HUGR that will be inserted
          \E m \in MetaToks \ {"none"} : SetMeta(2, 0, m) /\ hist' = Append(hist, Ev("SetMeta", 2, [n |-> 0, m |-> m]))
View == st
Emit == PrintT(ToJson([hist |-> hist', res |-> res', obs |-> Obs']))
(* one line per distinct state reached by insert_hugr; SampleK > 1 keeps every K-th of them *)
CONSTANT SampleK
EmitInsertState == (res.k = "mapping" /\ TLCGet("distinct") % SampleK = 0) => PrintT(ToJson([hist |-> hist, res |-> res, obs |-> Obs]))
(* one line per distinct state (BFS: with the first path that reaches it) *)
EmitState == hist = <<>> \/ PrintT(ToJson([hist |-> hist, res |-> res, obs |-> Obs]))
(* simulation: one line per step of the walk, carrying only the last event *)
(* (as an INVARIANT: in simulation mode TLC evaluates invariants only on the states of the walk itself, whereas
   an ACTION_CONSTRAINT is evaluated on every candidate successor) *)
EmitStep == hist = <<>> \/ PrintT(ToJson([n |-> Len(hist), e |-> hist[Len(hist)], res |-> res, obs |-> Obs]))
(* the action laws, evaluated for the action actually taken (named by the last history entry) *)
LastLaw ==
  LET e == hist'[Len(hist')] i == e.i IN
  CASE e.a = "DeleteLink" ->
         \A l \in AllLinks : LinkCount(st'[i], l) = LinkCount(st[i], l) - (IF l = Link(e.sn, e.so, e.dn, e.do) /\ LinkCount(st[i], l) > 0 THEN 1 ELSE 0)
    [] e.a = "AddLink" ->
         \A l \in AllLinks : LinkCount(st'[i], l) = LinkCount(st[i], l) + (IF l = Link(e.sn, e.so, e.dn, e.do) THEN 1 ELSE 0)
    [] e.a = "AddOrderLink" ->
         \A l \in AllLinks : LinkCount(st'[i], l) = (IF l = Link(e.sn, -1, e.dn, -1) /\ LinkCount(st[i], l) = 0 THEN 1 ELSE LinkCount(st[i], l))
    [] e.a = "DeleteNode" ->
         /\ st'[i].live = st[i].live \ {e.n}
         /\ \A l \in AllLinks : LinkCount(st'[i], l) = (IF l[1] = e.n \/ l[3] = e.n THEN 0 ELSE LinkCount(st[i], l))
         /\ \A m \in st'[i].live : st'[i].op[m] = st[i].op[m] /\ st'[i].meta[m] = st[i].meta[m] /\ st'[i].parent[m] = st[i].parent[m]
    [] e.a = "InsertHugr" -> InsertIsIso
    [] e.a = "TouchDead" -> st' = st
    [] OTHER -> \A j \in {1, 2} : j # i => st'[j] = st[j]
MCStepLaws == [][LastLaw]_<<vars, hist>>
=============================================================================
