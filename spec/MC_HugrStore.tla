---------------------------- MODULE MC_HugrStore ----------------------------
(* Emission wrapper for HugrStore: action path in `hist` (hidden by VIEW for the exhaustive run, kept for
   simulation walks) and one JSON line per explored transition. *)
EXTENDS HugrStore, Json
CONSTANTS Stores,         \* {1} : only store A evolves;  {1, 2} : both
          AllowInsert, MaxHist
VARIABLE hist
OffsetsAll == {-1, 0, 1}
OffsetsTwo == {-1, 0}
Ev(a, i, x) == [a |-> a, i |-> i] @@ x
MCInit == Init /\ hist = <<>>
MCNext ==
  /\ Len(hist) < MaxHist
  /\ \/ \E i \in Stores, p \in 0..MaxNodes, o \in OpToks, cnt \in {NoCount, 0, 2}, m \in MetaToks :
          AddNode(i, p, o, cnt, m) /\ hist' = Append(hist, Ev("AddNode", i, [p |-> p, o |-> o, cnt |-> cnt, m |-> m]))
     \/ \E i \in Stores, sn, dn \in 0..MaxNodes, so, do \in Offsets :
          \/ AddLink(i, sn, so, dn, do) /\ hist' = Append(hist, Ev("AddLink", i, [sn |-> sn, so |-> so, dn |-> dn, do |-> do]))
          \/ DeleteLink(i, sn, so, dn, do) /\ hist' = Append(hist, Ev("DeleteLink", i, [sn |-> sn, so |-> so, dn |-> dn, do |-> do]))
     \/ \E i \in Stores, a, b \in 0..MaxNodes :
          AddOrderLink(i, a, b) /\ hist' = Append(hist, Ev("AddOrderLink", i, [sn |-> a, dn |-> b]))
     \/ \E i \in Stores, n \in 0..MaxNodes :
          \/ DeleteNode(i, n) /\ hist' = Append(hist, Ev("DeleteNode", i, [n |-> n]))
          \/ TouchDead(i, n) /\ hist' = Append(hist, Ev("TouchDead", i, [n |-> n]))
     \/ AllowInsert /\ \E p \in 0..MaxNodes : InsertHugr(p) /\ hist' = Append(hist, Ev("InsertHugr", 1, [p |-> p]))
View == st
Emit == PrintT(ToJson([hist |-> hist', res |-> res', obs |-> Obs']))
MCStepLaws == [][StepLaws]_<<vars, hist>>
=============================================================================
