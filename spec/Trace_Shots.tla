----------------------------- MODULE Trace_Shots -----------------------------
(* Validation of recorded QsysShot executions: each event is one append(tag, value) together with what
   to_register_bits() returned afterwards. *)
EXTENDS Shots, Json, IOUtils, TLCExt
Traces == JsonDeserialize(IOEnv.TRACE_FILE)
VARIABLES tid, l
tvars == <<vars, tid, l>>
ToSet(s) == {s[i] : i \in 1..Len(s)}
TInit == Init /\ tid \in 1..Len(Traces) /\ l = 1
TNext == /\ l <= Len(Traces[tid])
         /\ LET e == Traces[tid][l] IN
            /\ Append1(e.tag, e.val)
            /\ (e.res = "ValueError") = err'
            /\ ~err' => {<<n, regs'[n]>> : n \in DOMAIN regs'} = {<<p[1], p[2]>> : p \in ToSet(e.bits)}
            /\ WriteLaw(e.tag, e.val)
         /\ l' = l + 1 /\ UNCHANGED tid
Progress == TLCSet(tid, l)
InitRegs == \A i \in 1..Len(Traces) : TLCSet(i, 0)
TInit2 == InitRegs /\ TInit
Accepted == LET bad == {i \in 1..Len(Traces) : TLCGet(i) # Len(Traces[i]) + 1} IN
            IF bad = {} THEN TRUE ELSE PrintT(ToJson([rejected |-> {<<i, TLCGet(i)>> : i \in bad}])) /\ FALSE
=============================================================================
