-------------------------------- MODULE Shots --------------------------------
(* hugr.qsystem.result: a shot is a growing list of (tag, value) entries; its register bitstrings are the
   result of replaying the entries, in order, as writes into a register file.  The state is `entries`
   (what a QsysShot holds) plus the register file `regs` / error flag `err` maintained incrementally; the
   invariant FoldAgrees ties the incremental view to the replay-from-scratch definition the property uses. *)
EXTENDS Integers, Sequences, FiniteSets, TLC

CONSTANTS Tags,     \* records [name |-> STRING, idx |-> -1 (whole register) or n >= 0 (bit n of register name)]
          Vals      \* records [k |-> "int"|"bool"|"bad"|"list", v |-> Int, vs |-> Seq(value)]

VARIABLES entries, regs, err
vars == <<entries, regs, err>>

-----------------------------------------------------------------------------
IsBit(x)  == x.k \in {"int", "bool"} /\ x.v \in {0, 1}        \* 0, 1, False, True
BitOf(x)  == IF x.v = 1 THEN "1" ELSE "0"
IsBits(x) == x.k = "list" /\ \A i \in 1..Len(x.vs) : IsBit(x.vs[i])

Zeros(n) == [i \in 1..n |-> "0"]
Max(a, b) == IF a > b THEN a ELSE b

(* one write: returns <<ok, regs'>> *)
Write(rg, tag, val) ==
  IF tag.idx >= 0 THEN                                   \* name[n]: one bit at position n, grow with zeros
     IF ~IsBit(val) THEN <<FALSE, rg>>
     ELSE LET old   == IF tag.name \in DOMAIN rg THEN rg[tag.name] ELSE <<>>
              grown == old \o Zeros(Max(0, tag.idx + 1 - Len(old)))
          IN <<TRUE, (tag.name :> [grown EXCEPT ![tag.idx + 1] = BitOf(val)]) @@ rg>>
  ELSE IF val.k = "list" THEN                            \* whole register := list of bits
     IF ~IsBits(val) THEN <<FALSE, rg>>
     ELSE <<TRUE, (tag.name :> [i \in 1..Len(val.vs) |-> BitOf(val.vs[i])]) @@ rg>>
  ELSE IF ~IsBit(val) THEN <<FALSE, rg>>                 \* whole register := single bit
     ELSE <<TRUE, (tag.name :> <<BitOf(val)>>) @@ rg>>

(* the property's definition: replay all entries in order, from an empty register file *)
RECURSIVE Replay(_, _, _)
Replay(es, i, acc) ==        \* acc = <<ok, regs>>
  IF i > Len(es) \/ ~acc[1] THEN acc
  ELSE Replay(es, i + 1, Write(acc[2], es[i][1], es[i][2]))
RegisterBits(es) == Replay(es, 1, <<TRUE, <<>>>>)

Init == entries = <<>> /\ regs = <<>> /\ err = FALSE

Append1(tag, val) ==
  /\ entries' = Append(entries, <<tag, val>>)
  /\ IF err THEN UNCHANGED <<regs, err>>
     ELSE LET w == Write(regs, tag, val) IN
          IF w[1] THEN regs' = w[2] /\ err' = FALSE ELSE err' = TRUE /\ UNCHANGED regs

Next == \E t \in Tags, v \in Vals : Append1(t, v)
Spec == Init /\ [][Next]_vars

-----------------------------------------------------------------------------
(* C19 for a single shot *)
FoldAgrees == LET r == RegisterBits(entries) IN (r[1] = ~err) /\ (~err => r[2] = regs)
OnlyBits   == \A n \in DOMAIN regs : \A i \in 1..Len(regs[n]) : regs[n][i] \in {"0", "1"}
(* later writes override earlier ones; an indexed write touches one position and only grows *)
WriteLaw(tag, val) ==
  (~err /\ ~err') =>
    /\ \A n \in DOMAIN regs : n # tag.name => n \in DOMAIN regs' /\ regs'[n] = regs[n]
    /\ tag.idx >= 0 =>
         /\ regs'[tag.name][tag.idx + 1] = BitOf(val)
         /\ tag.name \in DOMAIN regs =>
              /\ Len(regs'[tag.name]) = Max(Len(regs[tag.name]), tag.idx + 1)
              /\ \A i \in 1..Len(regs[tag.name]) : i # tag.idx + 1 => regs'[tag.name][i] = regs[tag.name][i]
         /\ tag.name \notin DOMAIN regs =>
              /\ Len(regs'[tag.name]) = tag.idx + 1
              /\ \A i \in 1..tag.idx : regs'[tag.name][i] = "0"
    /\ (tag.idx < 0 /\ val.k = "list") => regs'[tag.name] = [i \in 1..Len(val.vs) |-> BitOf(val.vs[i])]
    /\ (tag.idx < 0 /\ val.k # "list") => regs'[tag.name] = <<BitOf(val)>>
StepLaw == \A t \in Tags, v \in Vals : Append1(t, v) => WriteLaw(t, v)
ErrSticky == err => err'

(* what to_register_bits() returns: "ValueError" or {<<name, bits>>} *)
ObsBits(ok, rg) == IF ok THEN [res |-> "ok", bits |-> {<<n, rg[n]>> : n \in DOMAIN rg}]
                   ELSE [res |-> "ValueError", bits |-> {}]

-----------------------------------------------------------------------------
(* collation: per tag, every value of the shot, flattened, in entry order *)
RECURSIVE Flat(_)
Flat(x) == IF x.k = "list" THEN
              LET RECURSIVE Cat(_)
                  Cat(i) == IF i > Len(x.vs) THEN <<>> ELSE Flat(x.vs[i]) \o Cat(i + 1)
              IN Cat(1)
           ELSE <<x>>
TagsOf(es) == {es[i][1] : i \in 1..Len(es)}
RECURSIVE CollateTag(_, _, _)
CollateTag(es, t, i) == IF i > Len(es) THEN <<>>
                        ELSE (IF es[i][1] = t THEN Flat(es[i][2]) ELSE <<>>) \o CollateTag(es, t, i + 1)
CollateOK(es) == \A t \in TagsOf(es) : \A i \in 1..Len(CollateTag(es, t, 1)) : IsBit(CollateTag(es, t, 1)[i])
Collated(es) == {<<t, [i \in 1..Len(CollateTag(es, t, 1)) |-> BitOf(CollateTag(es, t, 1)[i])]>> : t \in TagsOf(es)}
ObsCollate(es) == IF CollateOK(es) THEN [res |-> "ok", tags |-> Collated(es)] ELSE [res |-> "ValueError", tags |-> {}]

-----------------------------------------------------------------------------
(* many shots *)
RegsOf(es) == RegisterBits(es)[2]
ShotOK(es) == RegisterBits(es)[1]
NamesDiffer(shots)   == \E i, j \in 1..Len(shots) : DOMAIN RegsOf(shots[i]) # DOMAIN RegsOf(shots[j])
LengthsDiffer(shots) == \E i, j \in 1..Len(shots) : \E n \in DOMAIN RegsOf(shots[i]) \cap DOMAIN RegsOf(shots[j]) :
                           Len(RegsOf(shots[i])[n]) # Len(RegsOf(shots[j])[n])
RECURSIVE PerReg(_, _, _)
PerReg(shots, n, i) == IF i > Len(shots) THEN <<>>
                       ELSE (IF n \in DOMAIN RegsOf(shots[i]) THEN <<RegsOf(shots[i])[n]>> ELSE <<>>) \o PerReg(shots, n, i + 1)
Bitstrings(shots, strictNames, strictLengths) ==
  IF \E i \in 1..Len(shots) : ~ShotOK(shots[i]) THEN [res |-> "ValueError", regs |-> {}]
  ELSE IF (strictNames /\ NamesDiffer(shots)) \/ (strictLengths /\ LengthsDiffer(shots)) THEN [res |-> "ValueError", regs |-> {}]
  ELSE [res |-> "ok", regs |-> {<<n, PerReg(shots, n, 1)>> : n \in UNION {DOMAIN RegsOf(shots[i]) : i \in 1..Len(shots)}}]
=============================================================================
