------------------------------ MODULE HugrStore ------------------------------
(* hugr.hugr.base.Hugr as a plain sequential model of a hierarchical port multigraph.
   A store is a record; node ids are fresh naturals (the allocation policy of the implementation -- a free
   list -- is not part of the model: the conformance harness keeps the id <-> Node bijection and checks that
   a live handle keeps addressing the same data).  Links form a *bag* of <<src node, src offset, dst node,
   dst offset>>; offset -1 is the state-order port.  Two stores (1 = A, 2 = B) so that insert_hugr can be
   an action. *)
EXTENDS Integers, Sequences, FiniteSets, Bags, TLC

CONSTANTS OpToks,        \* operation tokens (bound to concrete ops by the adapter)
          MetaToks,      \* metadata tokens ("none" = no metadata)
          Offsets,       \* port offsets used by add_link / delete_link, e.g. {-1, 0, 1}
          MaxNodes,      \* bound on ids per store (model checking only)
          MaxLinks
NoCount == -1

VARIABLES st,            \* st[1], st[2]: the two stores
          res            \* outcome of the last call: [k |-> "init"|"ok"|"node"|"mapping"|"KeyError", ...]
vars == <<st, res>>

EmptyStore(rootOp) ==
  [next |-> 1, live |-> {0}, op |-> (0 :> rootOp), parent |-> (0 :> 0), children |-> (0 :> <<>>),
   meta |-> (0 :> "none"), nin |-> (0 :> 0), nout |-> (0 :> 0), hcount |-> (0 :> 0), links |-> EmptyBag]

Max(a, b) == IF a > b THEN a ELSE b
Link(sn, so, dn, do) == <<sn, so, dn, do>>
Remove(s, x) == SelectSeq(s, LAMBDA y : y # x)

(* ---- pure store transformers ------------------------------------------------ *)
(* add_node(op, parent, num_outs, metadata): new last child of parent; the returned handle knows `cnt` outputs *)
AddNodeS(s, p, o, cnt, m) ==
  LET n == s.next IN
  [s EXCEPT !.next = n + 1, !.live = @ \cup {n},
            !.op = (n :> o) @@ @, !.parent = (n :> p) @@ @,
            !.children = (n :> <<>>) @@ [@ EXCEPT ![p] = Append(@, n)],
            !.meta = (n :> m) @@ @, !.nin = (n :> 0) @@ @,
            !.nout = (n :> (IF cnt = NoCount THEN 0 ELSE cnt)) @@ @,
            !.hcount = (n :> cnt) @@ @]
(* add_link(src, dst): one more occurrence; port counts grow to cover the offsets *)
AddLinkS(s, sn, so, dn, do) ==
  [s EXCEPT !.links = @ (+) SetToBag({Link(sn, so, dn, do)}),
            !.nout = [@ EXCEPT ![sn] = Max(@, so + 1)],
            !.nin  = [@ EXCEPT ![dn] = Max(@, do + 1)]]
HasLinkS(s, sn, so, dn, do) == BagIn(Link(sn, so, dn, do), s.links)
(* add_order_link(a, b): idempotent *)
AddOrderLinkS(s, a, b) == IF HasLinkS(s, a, -1, b, -1) THEN s ELSE AddLinkS(s, a, -1, b, -1)
(* delete_link(src, dst): exactly one occurrence, if any *)
DeleteLinkS(s, sn, so, dn, do) ==
  IF HasLinkS(s, sn, so, dn, do) THEN [s EXCEPT !.links = @ (-) SetToBag({Link(sn, so, dn, do)})] ELSE s
(* delete_node(n) for a childless non-root node: detach, drop every incident link, free the id for good *)
Incident(s, n) == {l \in BagToSet(s.links) : l[1] = n \/ l[3] = n}
DeleteNodeS(s, n) ==
  [s EXCEPT !.live = @ \ {n},
            !.children = [@ EXCEPT ![s.parent[n]] = Remove(@, n)],
            !.links = [l \in BagToSet(s.links) \ Incident(s, n) |-> s.links[l]]]

(* insert_hugr(b, parent): copy every live node of b, parents first, in ascending id order *)
Sorted(S) == LET RECURSIVE Srt(_) Srt(T) == IF T = {} THEN <<>> ELSE LET m == CHOOSE x \in T : \A y \in T : x <= y IN <<m>> \o Srt(T \ {m}) IN Srt(S)
Rank(S, x) == Cardinality({y \in S : y < x})
InsertMap(a, b) == [n \in b.live |-> a.next + Rank(b.live, n)]
InsertS(a, b, p) ==
  LET map == InsertMap(a, b)
      new == {map[n] : n \in b.live}
      inv == [m \in new |-> CHOOSE n \in b.live : map[n] = m]
  IN [a EXCEPT !.next = a.next + Cardinality(b.live), !.live = @ \cup new,
               !.op = [m \in new |-> b.op[inv[m]]] @@ @,
               !.parent = [m \in new |-> IF inv[m] = 0 THEN p ELSE map[b.parent[inv[m]]]] @@ @,
               !.children = [m \in new |-> [i \in 1..Len(b.children[inv[m]]) |-> map[b.children[inv[m]][i]]]]
                            @@ [@ EXCEPT ![p] = Append(@, map[0])],
               !.meta = [m \in new |-> b.meta[inv[m]]] @@ @,
               !.nin  = [m \in new |-> LET offs == {k[4] + 1 : k \in {x \in BagToSet(b.links) : x[3] = inv[m]}} IN
                                        IF offs = {} THEN 0 ELSE CHOOSE x \in offs : \A y \in offs : x >= y] @@ @,   \* only what the copied links need
               !.nout = [m \in new |-> b.nout[inv[m]]] @@ @,
               !.hcount = [m \in new |-> b.nout[inv[m]]] @@ @,
               !.links = @ (+) [l \in {Link(map[k[1]], k[2], map[k[3]], k[4]) : k \in BagToSet(b.links)} |->
                                b.links[CHOOSE k \in BagToSet(b.links) : Link(map[k[1]], k[2], map[k[3]], k[4]) = l]]]

(* ---- actions --------------------------------------------------------------------- *)
Init == st = [i \in {1, 2} |-> EmptyStore("root")] /\ res = [k |-> "init"]
Room(i) == st[i].next < MaxNodes
NLinks(i) == BagCardinality(st[i].links)

AddNode(i, p, o, cnt, m) ==
  /\ Room(i) /\ p \in st[i].live
  /\ st' = [st EXCEPT ![i] = AddNodeS(@, p, o, cnt, m)]
  /\ res' = [k |-> "node", id |-> st[i].next, count |-> cnt]
AddLink(i, sn, so, dn, do) ==
  /\ sn \in st[i].live /\ dn \in st[i].live /\ NLinks(i) < MaxLinks
  /\ st' = [st EXCEPT ![i] = AddLinkS(@, sn, so, dn, do)] /\ res' = [k |-> "ok"]
AddOrderLink(i, a, b) ==
  /\ a \in st[i].live /\ b \in st[i].live /\ NLinks(i) < MaxLinks
  /\ st' = [st EXCEPT ![i] = AddOrderLinkS(@, a, b)] /\ res' = [k |-> "ok"]
DeleteLink(i, sn, so, dn, do) ==
  /\ sn \in st[i].live /\ dn \in st[i].live
  /\ st' = [st EXCEPT ![i] = DeleteLinkS(@, sn, so, dn, do)] /\ res' = [k |-> "ok"]
DeleteNode(i, n) ==
  /\ n \in st[i].live /\ n # 0 /\ st[i].children[n] = <<>>
  /\ st' = [st EXCEPT ![i] = DeleteNodeS(@, n)] /\ res' = [k |-> "ok"]
(* hugr[n].metadata is a dictionary the user may fill at any time (the root's included): the node's metadata becomes m *)
SetMeta(i, n, m) ==
  /\ n \in st[i].live
  /\ st' = [st EXCEPT ![i].meta[n] = m] /\ res' = [k |-> "ok"]
(* a query on a node that was deleted: KeyError, nothing changes *)
TouchDead(i, n) ==
  /\ n \in (0..(st[i].next - 1)) \ st[i].live
  /\ UNCHANGED st /\ res' = [k |-> "KeyError"]
InsertHugr(p) ==          \* insert store 2 (B) into store 1 (A) under p
  /\ p \in st[1].live /\ st[1].next + Cardinality(st[2].live) <= MaxNodes + 2
  /\ BagCardinality(st[1].links) + BagCardinality(st[2].links) <= MaxLinks + 2
  /\ st' = [st EXCEPT ![1] = InsertS(@, st[2], p)]
  /\ res' = [k |-> "mapping", map |-> InsertMap(st[1], st[2])]

Next ==
  \/ \E i \in {1, 2}, p \in 0..MaxNodes, o \in OpToks, cnt \in {NoCount, 0, 2}, m \in MetaToks : AddNode(i, p, o, cnt, m)
  \/ \E i \in {1, 2}, sn, dn \in 0..MaxNodes, so, do \in Offsets : AddLink(i, sn, so, dn, do) \/ DeleteLink(i, sn, so, dn, do)
  \/ \E i \in {1, 2}, a, b \in 0..MaxNodes : AddOrderLink(i, a, b)
  \/ \E i \in {1, 2}, n \in 0..MaxNodes : DeleteNode(i, n) \/ TouchDead(i, n)
  \/ \E p \in 0..MaxNodes : InsertHugr(p)
Spec == Init /\ [][Next]_vars

-----------------------------------------------------------------------------
(* C04 invariants *)
NoDangling(s) == \A l \in BagToSet(s.links) : l[1] \in s.live /\ l[3] \in s.live
TreeShape(s) ==
  /\ 0 \in s.live /\ s.parent[0] = 0
  /\ \A n \in s.live \ {0} : s.parent[n] \in s.live /\ s.parent[n] # n
         /\ Cardinality({k \in 1..Len(s.children[s.parent[n]]) : s.children[s.parent[n]][k] = n}) = 1
  /\ \A p \in s.live : \A k \in 1..Len(s.children[p]) : s.children[p][k] \in s.live /\ s.parent[s.children[p][k]] = p
PortCountsCover(s) ==
  \A l \in BagToSet(s.links) : s.nout[l[1]] >= l[2] + 1 /\ s.nin[l[3]] >= l[4] + 1
Inv == \A i \in {1, 2} : NoDangling(st[i]) /\ TreeShape(st[i]) /\ PortCountsCover(st[i])

(* action laws: what one call may change *)
LinkCount(s, l) == IF BagIn(l, s.links) THEN s.links[l] ELSE 0
AllLinks == BagToSet(st[1].links) \cup BagToSet(st[2].links) \cup BagToSet(st'[1].links) \cup BagToSet(st'[2].links)
DeleteLinkExact == \A i \in {1, 2}, sn, dn \in 0..MaxNodes, so, do \in Offsets :
  DeleteLink(i, sn, so, dn, do) =>
     \A l \in AllLinks : LinkCount(st'[i], l) = LinkCount(st[i], l) - (IF l = Link(sn, so, dn, do) /\ LinkCount(st[i], l) > 0 THEN 1 ELSE 0)
AddLinkExact == \A i \in {1, 2}, sn, dn \in 0..MaxNodes, so, do \in Offsets :
  AddLink(i, sn, so, dn, do) =>
     \A l \in AllLinks : LinkCount(st'[i], l) = LinkCount(st[i], l) + (IF l = Link(sn, so, dn, do) THEN 1 ELSE 0)
DeleteNodeExact == \A i \in {1, 2}, n \in 0..MaxNodes :
  DeleteNode(i, n) =>
     /\ st'[i].live = st[i].live \ {n}
     /\ \A l \in AllLinks : LinkCount(st'[i], l) = (IF l[1] = n \/ l[3] = n THEN 0 ELSE LinkCount(st[i], l))
     /\ \A m \in st'[i].live : st'[i].op[m] = st[i].op[m] /\ st'[i].meta[m] = st[i].meta[m] /\ st'[i].parent[m] = st[i].parent[m]
(* C08: inserting B into A embeds it isomorphically and disturbs nothing else *)
InsertIsIso == \A p \in 0..MaxNodes :
  InsertHugr(p) =>
    LET a == st[1] b == st[2] a2 == st'[1] map == res'.map new == {map[n] : n \in b.live} IN
    /\ DOMAIN map = b.live /\ \A x, y \in b.live : map[x] = map[y] => x = y            \* bijection onto new nodes
    /\ new \cap a.live = {} /\ a2.live = a.live \cup new
    /\ \A n \in b.live : /\ a2.op[map[n]] = b.op[n] /\ a2.meta[map[n]] = b.meta[n] /\ a2.nout[map[n]] = b.nout[n]
                         /\ a2.children[map[n]] = [k \in 1..Len(b.children[n]) |-> map[b.children[n][k]]]
                         /\ (n # 0 => a2.parent[map[n]] = map[b.parent[n]])
    /\ a2.parent[map[0]] = p /\ a2.children[p] = Append(a.children[p], map[0])            \* image of the root: last child of p
    /\ \A k \in BagToSet(b.links) : LinkCount(a2, Link(map[k[1]], k[2], map[k[3]], k[4])) = b.links[k]
    /\ \A l \in BagToSet(a.links) : LinkCount(a2, l) = a.links[l]                          \* A's links untouched
    /\ \A l \in BagToSet(a2.links) : (l[1] \in new) = (l[3] \in new)                        \* no link between old and new
    /\ \A n \in a.live : a2.op[n] = a.op[n] /\ a2.meta[n] = a.meta[n] /\ a2.parent[n] = a.parent[n]
                         /\ (n # p => a2.children[n] = a.children[n])
    /\ st'[2] = st[2]                                                                       \* B itself is not modified
StepLaws == DeleteLinkExact /\ AddLinkExact /\ DeleteNodeExact /\ InsertIsIso

-----------------------------------------------------------------------------
(* observation of one store: what the public queries must return *)
BagAsSet(b) == {<<l, b[l]>> : l \in BagToSet(b)}
LinkedFrom(s, n, o) == {<<<<l[3], l[4]>>, s.links[l]>> : l \in {k \in BagToSet(s.links) : k[1] = n /\ k[2] = o}}
LinkedTo(s, n, o)   == {<<<<l[1], l[2]>>, s.links[l]>> : l \in {k \in BagToSet(s.links) : k[3] = n /\ k[4] = o}}
ObsS(s) ==
  [nodes |-> s.live, len |-> Cardinality(s.live),
   node |-> {[id |-> n, op |-> s.op[n], parent |-> s.parent[n], children |-> s.children[n], meta |-> s.meta[n],
              nin |-> s.nin[n], nout |-> s.nout[n]] : n \in s.live},
   links |-> BagAsSet(s.links),
   dead |-> (0..(s.next - 1)) \ s.live]
Obs == [a |-> ObsS(st[1]), b |-> ObsS(st[2])]
=============================================================================
