----------------------------- MODULE HugrStoreImpl -----------------------------
(* The link table of hugr.Hugr *as implemented*: a bidirectional map between out sub-ports and in sub-ports, a
   sub-port being <<port, sub-offset>>.  A port's links are found by scanning sub-offsets 0, 1, 2, ... until the first
   missing one (`_linked_ports`), so the representation is only faithful while the sub-offsets of every port are
   contiguous.  add_link takes the first unused sub-offset on both sides; delete_link removes one entry and -- in the
   repaired algorithm (Compact = TRUE) -- shifts the higher sub-offsets of both ports down by one.
   Refines: what the scans see is exactly the bag of stored links (the abstract HugrStore view).  With Compact = FALSE
   (the algorithm of the pinned tree) TLC finds the 3-step counterexample add, add, delete (defect F09). *)
EXTENDS Integers, Sequences, FiniteSets, Bags, TLC

CONSTANTS OutPorts, InPorts, MaxLinks, Compact
VARIABLES fwd,      \* <<out port, sub>> -> <<in port, sub>>
          bck       \* inverse
vars == <<fwd, bck>>
Drop(f, S) == [x \in DOMAIN f \ S |-> f[x]]
RECURSIVE FirstFree(_, _, _)
FirstFree(dom, p, k) == IF <<p, k>> \in dom THEN FirstFree(dom, p, k + 1) ELSE k
RECURSIVE Scan(_, _, _)
Scan(f, p, k) == IF <<p, k>> \in DOMAIN f THEN <<f[<<p, k>>][1]>> \o Scan(f, p, k + 1) ELSE <<>>     \* `_linked_ports`

Init == fwd = <<>> /\ bck = <<>>
AddLink(o, i) ==
  /\ Cardinality(DOMAIN fwd) < MaxLinks
  /\ LET so == <<o, FirstFree(DOMAIN fwd, o, 0)>> si == <<i, FirstFree(DOMAIN bck, i, 0)>> IN
     fwd' = (so :> si) @@ fwd /\ bck' = (si :> so) @@ bck
(* move the entry at sub-offset k+1.. of port p one down, on the out side *)
RECURSIVE ShiftOut(_, _, _, _)
ShiftOut(f, b, p, k) ==      \* hole at <<p, k>>
  IF <<p, k + 1>> \in DOMAIN f
    THEN LET t == f[<<p, k + 1>>] IN ShiftOut((<<p, k>> :> t) @@ Drop(f, {<<p, k + 1>>}), (t :> <<p, k>>) @@ b, p, k + 1)
    ELSE <<f, b>>
RECURSIVE ShiftIn(_, _, _, _)
ShiftIn(f, b, p, k) ==       \* hole at <<p, k>> on the in side
  IF <<p, k + 1>> \in DOMAIN b
    THEN LET s == b[<<p, k + 1>>] IN ShiftIn((s :> <<p, k>>) @@ f, (<<p, k>> :> s) @@ Drop(b, {<<p, k + 1>>}), p, k + 1)
    ELSE <<f, b>>
DeleteLink(o, i) ==
  LET seen == Scan(fwd, o, 0)
      ks == {k \in 1..Len(seen) : seen[k] = i} IN
  IF ks = {} THEN UNCHANGED vars
  ELSE LET k == (CHOOSE x \in ks : \A y \in ks : x <= y) - 1         \* first visible occurrence
           so == <<o, k>> si == fwd[so]
           f1 == Drop(fwd, {so}) b1 == Drop(bck, {si}) IN
       IF ~Compact THEN fwd' = f1 /\ bck' = b1
       ELSE LET r1 == ShiftOut(f1, b1, o, k) r2 == ShiftIn(r1[1], r1[2], si[1], si[2]) IN fwd' = r2[1] /\ bck' = r2[2]
Next == \E o \in OutPorts, i \in InPorts : AddLink(o, i) \/ DeleteLink(o, i)

(* ---- refinement ---- *)
Inverse == /\ DOMAIN bck = {fwd[s] : s \in DOMAIN fwd} /\ \A s \in DOMAIN fwd : bck[fwd[s]] = s
Stored == LET S == {<<s[1], fwd[s][1]>> : s \in DOMAIN fwd} IN
          [l \in S |-> Cardinality({s \in DOMAIN fwd : <<s[1], fwd[s][1]>> = l})]               \* the abstract bag of links
SeqBag(s) == [x \in {s[k] : k \in 1..Len(s)} |-> Cardinality({k \in 1..Len(s) : s[k] = x})]
VisibleFrom(o) == SeqBag(Scan(fwd, o, 0))
VisibleTo(i) == SeqBag(Scan(bck, i, 0))
Refines ==
  /\ Inverse
  /\ \A o \in OutPorts : VisibleFrom(o) = [i \in {l[2] : l \in {x \in DOMAIN Stored : x[1] = o}} |-> Stored[<<o, i>>]]
  /\ \A i \in InPorts : VisibleTo(i) = [o \in {l[1] : l \in {x \in DOMAIN Stored : x[2] = i}} |-> Stored[<<o, i>>]]
=============================================================================
