---------------------------- MODULE MC_NodeHandle ----------------------------
EXTENDS NodeHandle, Json
CONSTANTS MaxN, MaxI
VARIABLES n, a, b, s, mode
Counts == {NoCount} \cup (0..MaxN)
Bnd == {None} \cup (-MaxI..MaxI)
StepsSet == {None, 1, 2, 3}
Init == /\ n \in Counts
        /\ \/ mode = "slice" /\ a \in Bnd /\ b \in Bnd /\ s \in StepsSet
           \/ mode = "index" /\ a \in -MaxI..MaxI /\ b = None /\ s = None
Next == UNCHANGED <<n, a, b, s, mode>>
Laws == IF mode = "slice" THEN Law(n, a, b, s) ELSE IndexLaw(n, a)
InDomain == \* what the property speaks about (see DESIGN A.5): for handles without a count only i >= 0, [:] and iteration
   IF n # NoCount THEN TRUE
   ELSE IF mode = "index" THEN a >= 0 ELSE (a = None /\ b = None)
Emit == ~InDomain \/ PrintT(ToJson([mode |-> mode, n |-> n, a |-> a, b |-> b, s |-> s,
                                    exp |-> IF mode = "slice" THEN Slice(n, a, b, s) ELSE Index(n, a)]))
=============================================================================
