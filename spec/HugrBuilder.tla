------------------------------ MODULE HugrBuilder ------------------------------
(* The dataflow builders of hugr-py (hugr.build.dfg: Dfg, add_op / add, add_nested, load, add_state_order, set_outputs)
   as an explicit state machine, at the granularity of one action per public call and mirroring what each call does
   inside: the order in which nodes are created (so that node k of the model is node k of the implementation), `_wire_up`
   linking argument i to input port i and adding the state-order edge from the source to the sibling ancestor of the
   target for a non-local wire (idempotently), completion of Output / DFG signatures by set_outputs, `load` creating the
   Const and then the LoadConstant with its static edge.

   nodes[k] = [op, parent] is node k-1 (op in wire vocabulary, possibly still incomplete: `done` lists the nodes whose
   operation is complete); links is the sequence of <<src node, src offset, dst node, dst offset>> (-1 = order port) in the
   order they are added; ctxs is the stack of open builder contexts [node, inp, out].

   Programs are well-formed by construction (arguments of the right type, linear values used once and only locally,
   non-local sources copyable and in an enclosing region, builders closed innermost-first, every linear value consumed
   before its region is closed), so User(Doc) holds in every Finished state; the invariant is C01 for this fragment:
   Finished => Valid(Doc). *)
EXTENDS HugrValidity

CONSTANTS RootInputs,     \* input row of the root Dfg, e.g. <<BoolT, QubitT>>
          MaxCalls, MaxDepth,
          Ops,            \* names of the alphabet operations a configuration uses
          Features        \* subset of {"load", "nested", "order", "cond", "loop"}: the builder calls a configuration explores

VARIABLES nodes, links, ctxs, pending, done, used, calls, hist
bvars == <<nodes, links, ctxs, pending, done, used, calls, hist>>

(* ---- the operation alphabet (wire vocabulary) ---- *)
CustomOp(name, i, o) == [op |-> "Extension", extension |-> "verif.q", name |-> name, signature |-> FnT(i, o), description |-> "", args |-> <<>>]
OpNot     == [op |-> "Extension", extension |-> "logic", name |-> "Not", signature |-> FnTR(<<BoolT>>, <<BoolT>>, <<"logic">>),
              description |-> "logical 'not'", args |-> <<>>]
OpH       == CustomOp("H", <<QubitT>>, <<QubitT>>)
OpMeasure == CustomOp("Measure", <<QubitT>>, <<QubitT, BoolT>>)        \* multi-output, the Bool may stay unused
OpAlloc   == CustomOp("QAlloc", <<>>, <<QubitT>>)
OpFree    == CustomOp("QFree", <<QubitT>>, <<>>)
OptB      == GenSumT(<<<<>>, <<BoolT>>>>)                                \* Option(Bool)
OpSome    == [op |-> "Tag", name |-> "Some", tag |-> 1, variants |-> <<<<>>, <<BoolT>>>>]
OpNone    == [op |-> "Tag", name |-> "None", tag |-> 0, variants |-> <<<<>>, <<BoolT>>>>]
OpCont    == [op |-> "Tag", name |-> "Cont", tag |-> 0, variants |-> <<<<BoolT>>, <<>>>>]     \* loop control Sum([[Bool], []]): continue with a Bool
OpBrk     == [op |-> "Tag", name |-> "Brk", tag |-> 1, variants |-> <<<<BoolT>>, <<>>>>]
Alphabet  == {OpNot, OpH, OpMeasure, OpAlloc, OpFree, OpSome, OpNone, OpCont, OpBrk}
StripName(o) == IF o.op = "Tag" THEN [op |-> "Tag", tag |-> o.tag, variants |-> o.variants] ELSE o
TrueV == [v |-> "Sum", tag |-> 1, typ |-> UnitSumT(2), vs |-> <<>>]

NodeOp(n) == nodes[n + 1].op
NodePar(n) == nodes[n + 1].parent
NNodes == Len(nodes)
Linear(t) == Bound(t) = "A"
OutRow(n) == DfSig(NodeOp(n))[2]
WireType(w) == OutRow(w[1])[w[2] + 1]

(* ---- hierarchy helpers (as `_ancestral_sibling`) ---- *)
RECURSIVE AncSibB(_, _)
AncSibB(sp, t) == IF t = 0 THEN -1 ELSE IF NodePar(t) = sp THEN t ELSE AncSibB(sp, NodePar(t))
RECURSIVE AncestorsB(_)
AncestorsB(n) == IF n = 0 THEN {0} ELSE {n} \cup AncestorsB(NodePar(n))
(* the enclosing regions a value may come from: up to and including the nearest function body (no value edge enters a FuncDefn) *)
RECURSIVE ValueAncB(_)
ValueAncB(n) == IF n = 0 \/ NodeOp(n).op = "FuncDefn" THEN {n} ELSE {n} \cup ValueAncB(NodePar(n))

(* value wires produced in the region of container c: outputs of its Input node and of the completed dataflow nodes in it *)
Producers(c) == {n \in 0..(NNodes - 1) : n # 0 /\ NodePar(n) = c /\ n \in done /\ NodeOp(n).op \notin {"Output", "Const", "Case", "FuncDefn"}}
RegionWires(c) == UNION {{<<n, o>> : o \in 0..(Len(OutRow(n)) - 1)} : n \in Producers(c)}
(* wires a new node in container c may take: local ones (linear ones only if unused), copyable ones of enclosing regions *)
Usable(c) ==
  {w \in RegionWires(c) : ~(Linear(WireType(w)) /\ w \in used)}
  \cup {w \in UNION {RegionWires(a) : a \in ValueAncB(c) \ {c}} : ~Linear(WireType(w))}

Init ==
  /\ nodes = <<[op |-> [op |-> "DFG", signature |-> FnT(RootInputs, <<>>)], parent |-> 0],
               [op |-> [op |-> "Input", types |-> RootInputs], parent |-> 0],
               [op |-> [op |-> "Output", types |-> <<>>], parent |-> 0]>>
  /\ links = <<>> /\ ctxs = <<[node |-> 0, inp |-> 1, out |-> 2, kind |-> "dfg", cond |-> -1]>> /\ pending = {}
  /\ done = {1} /\ used = {} /\ calls = 0 /\ hist = <<>>

(* `_wire_up(node, args)`: for argument i, the order edge to the sibling ancestor if the wire is non-local, then the link *)
RECURSIVE WireUp(_, _, _, _, _)
WireUp(ls, node, c, args, i) ==        \* node (possibly not yet in `nodes`) is a child of container c
  IF i > Len(args) THEN ls
  ELSE LET src == args[i]
           anc == IF NodePar(src[1]) = c THEN node ELSE AncSibB(NodePar(src[1]), c)
           ord == <<src[1], -1, anc, -1>>
           ls1 == IF anc # node /\ \A k \in 1..Len(ls) : ls[k] # ord THEN Append(ls, ord) ELSE ls
       IN WireUp(Append(ls1, <<src[1], src[2], node, i - 1>>), node, c, args, i + 1)
LinearArgs(args) == {args[i] : i \in {j \in 1..Len(args) : Linear(WireType(args[j]))}}
Distinct(args) == \A i, j \in 1..Len(args) : (i # j /\ Linear(WireType(args[i]))) => args[i] # args[j]
ArgsFor(c, row) == {a \in [1..Len(row) -> Usable(c)] : (\A i \in 1..Len(row) : NormT(WireType(a[i])) = NormT(row[i])) /\ Distinct(a)}

(* add_op(op, args...) / add(op(args...)) in the context whose container is c *)
AddOp(k, o, args) ==
  LET c == ctxs[k].node n == NNodes IN
  /\ calls < MaxCalls
  /\ nodes' = Append(nodes, [op |-> StripName(o), parent |-> c])
  /\ links' = WireUp(links, n, c, args, 1)
  /\ done' = done \cup {n} /\ used' = used \cup LinearArgs(args)
  /\ calls' = calls + 1 /\ UNCHANGED <<ctxs, pending>>
  /\ hist' = Append(hist, [a |-> "AddOp", ctx |-> c, op |-> o.name, args |-> args])
(* load(value): Const node, then LoadConstant node, then the static edge *)
Load(k) ==
  LET c == ctxs[k].node n == NNodes IN
  /\ calls < MaxCalls
  /\ nodes' = nodes \o <<[op |-> [op |-> "Const", v |-> TrueV], parent |-> c],
                         [op |-> [op |-> "LoadConstant", datatype |-> BoolT], parent |-> c]>>
  /\ links' = Append(links, <<n, 0, n + 1, 0>>)
  /\ done' = done \cup {n, n + 1} /\ calls' = calls + 1 /\ UNCHANGED <<ctxs, used, pending>>
  /\ hist' = Append(hist, [a |-> "Load", ctx |-> c])
(* add_nested(args...): DFG node (inputs = argument types), its Input and Output, then the arguments are wired to it *)
AddNested(k, args) ==
  LET c == ctxs[k].node n == NNodes
      row == [i \in 1..Len(args) |-> WireType(args[i])] IN
  /\ calls < MaxCalls /\ Len(ctxs) < MaxDepth /\ k = Len(ctxs)
  /\ Distinct(args)
  /\ nodes' = nodes \o <<[op |-> [op |-> "DFG", signature |-> FnT(row, <<>>)], parent |-> c],
                         [op |-> [op |-> "Input", types |-> row], parent |-> n],
                         [op |-> [op |-> "Output", types |-> <<>>], parent |-> n]>>
  /\ links' = WireUp(links, n, c, args, 1)
  /\ ctxs' = Append(ctxs, [node |-> n, inp |-> n + 1, out |-> n + 2, kind |-> "dfg", cond |-> -1])
  /\ done' = done \cup {n + 1} /\ used' = used \cup LinearArgs(args) /\ calls' = calls + 1 /\ UNCHANGED pending
  /\ hist' = Append(hist, [a |-> "AddNested", ctx |-> c, args |-> args])
(* add_state_order(a, b) between two siblings, a created before b *)
AddStateOrder(k, a, b) ==
  LET c == ctxs[k].node IN
  /\ calls < MaxCalls /\ a < b /\ NodePar(a) = c /\ NodePar(b) = c /\ a # 0
  /\ HasOrder(NodeOp(a), "out") /\ HasOrder(NodeOp(b), "in") /\ a \in done \cup {ctxs[k].inp} /\ (b \in done \/ b = ctxs[k].out)
  /\ \A j \in 1..Len(links) : links[j] # <<a, -1, b, -1>>
  /\ LET E == {<<links[j][1], AncSibB(c, links[j][3])>> : j \in {x \in 1..Len(links) : NodePar(links[x][1]) = c}} IN
     a \notin Reach({e \in E : e[2] >= 0}, {b}, NNodes)          \* keeps the sibling graph acyclic
  /\ links' = Append(links, <<a, -1, b, -1>>) /\ calls' = calls + 1 /\ UNCHANGED <<nodes, ctxs, done, used, pending>>
  /\ hist' = Append(hist, [a |-> "AddStateOrder", ctx |-> c, x |-> a, y |-> b])
(* add_conditional(cond_wire, others...): the Conditional node, then for every variant a Case node with its Input and Output
   (all cases are created up front), then the arguments are wired to the Conditional *)
CondRows(t) == SumRows(t)
AddConditional(k, cw, others) ==
  LET c == ctxs[k].node n == NNodes
      rows == CondRows(WireType(cw))
      orow == [i \in 1..Len(others) |-> WireType(others[i])]
      caseNodes(i) == <<[op |-> [op |-> "Case", signature |-> FnT(rows[i] \o orow, <<>>)], parent |-> n],
                       [op |-> [op |-> "Input", types |-> rows[i] \o orow], parent |-> n + 1 + 3 * (i - 1)],
                       [op |-> [op |-> "Output", types |-> <<>>], parent |-> n + 1 + 3 * (i - 1)]>>
      RECURSIVE AllCases(_) AllCases(i) == IF i > Len(rows) THEN <<>> ELSE caseNodes(i) \o AllCases(i + 1) IN
  /\ calls < MaxCalls /\ Len(ctxs) < MaxDepth /\ k = Len(ctxs)
  /\ IsSumT(WireType(cw)) /\ Len(rows) = 2 /\ (\A i \in 1..Len(others) : others[i] # cw) /\ Distinct(others)
  /\ nodes' = nodes \o <<[op |-> [op |-> "Conditional", sum_rows |-> rows, other_inputs |-> orow, outputs |-> <<>>, extension_delta |-> <<>>],
                            parent |-> c]>> \o AllCases(1)
  /\ links' = WireUp(links, n, c, <<cw>> \o others, 1)
  /\ pending' = pending \cup {[node |-> n + 1 + 3 * (i - 1), inp |-> n + 2 + 3 * (i - 1), out |-> n + 3 + 3 * (i - 1), kind |-> "case", cond |-> n] : i \in 1..Len(rows)}
  /\ done' = done \cup {n + 2 + 3 * (i - 1) : i \in 1..Len(rows)}
  /\ used' = used \cup LinearArgs(<<cw>> \o others) /\ calls' = calls + 1 /\ UNCHANGED ctxs
  /\ hist' = Append(hist, [a |-> "AddConditional", ctx |-> c, args |-> <<cw>> \o others])
(* add_tail_loop(just_inputs, rest): the TailLoop node (just_outputs still unknown), its Input (just_inputs ++ rest) and Output,
   then the arguments are wired to it *)
AddTailLoop(k, just, rest) ==
  LET c == ctxs[k].node n == NNodes
      jrow == [i \in 1..Len(just) |-> WireType(just[i])]
      rrow == [i \in 1..Len(rest) |-> WireType(rest[i])] IN
  /\ calls < MaxCalls /\ Len(ctxs) < MaxDepth /\ k = Len(ctxs)
  /\ Distinct(just \o rest)
  /\ nodes' = nodes \o <<[op |-> [op |-> "TailLoop", just_inputs |-> jrow, just_outputs |-> <<>>, rest |-> rrow, extension_delta |-> <<>>], parent |-> c],
                         [op |-> [op |-> "Input", types |-> jrow \o rrow], parent |-> n],
                         [op |-> [op |-> "Output", types |-> <<>>], parent |-> n]>>
  /\ links' = WireUp(links, n, c, just \o rest, 1)
  /\ ctxs' = Append(ctxs, [node |-> n, inp |-> n + 1, out |-> n + 2, kind |-> "loop", cond |-> -1])
  /\ done' = done \cup {n + 1} /\ used' = used \cup LinearArgs(just \o rest) /\ calls' = calls + 1 /\ UNCHANGED pending
  /\ hist' = Append(hist, [a |-> "AddTailLoop", ctx |-> c, just |-> just, rest |-> rest])
(* define_function(name, inputs, outputs?): FuncDefn (a child of the root), its Input and Output; with declared outputs the
   function can be called (also recursively) before it is finished *)
FuncRows == {<<>>, <<BoolT>>, <<QubitT>>}
Funcs == {n \in 0..(NNodes - 1) : NodeOp(n).op = "FuncDefn"}
Callable == {f \in Funcs : f \in done}
DefineFunction(ins, declared, outs) ==
  LET n == NNodes IN
  /\ calls < MaxCalls /\ Len(ctxs) < MaxDepth /\ Cardinality(Funcs) < 2
  /\ nodes' = nodes \o <<[op |-> [op |-> "FuncDefn", name |-> "f", signature |-> [params |-> <<>>, body |-> FnT(ins, IF declared THEN outs ELSE <<>>)]], parent |-> 0],
                         [op |-> [op |-> "Input", types |-> ins], parent |-> n],
                         [op |-> [op |-> "Output", types |-> <<>>], parent |-> n]>>
  /\ ctxs' = Append(ctxs, [node |-> n, inp |-> n + 1, out |-> n + 2, kind |-> IF declared THEN "funcd" ELSE "func", cond |-> -1])
  /\ done' = done \cup {n + 1} \cup (IF declared THEN {n} ELSE {}) /\ calls' = calls + 1 /\ UNCHANGED <<links, used, pending>>
  /\ hist' = Append(hist, [a |-> "DefineFunction", ctx |-> 0, ins |-> ins, declared |-> declared, outs |-> outs])
(* call(f, args...): the Call node, the static edge from the function to the port after the value inputs, then the arguments *)
CallF(k, f, args) ==
  LET c == ctxs[k].node n == NNodes body == NodeOp(f).signature.body IN
  /\ calls < MaxCalls /\ f \in Callable
  /\ nodes' = Append(nodes, [op |-> [op |-> "Call", func_sig |-> NodeOp(f).signature, type_args |-> <<>>, instantiation |-> body], parent |-> c])
  /\ links' = WireUp(Append(links, <<f, 0, n, Len(body.input)>>), n, c, args, 1)
  /\ done' = done \cup {n} /\ used' = used \cup LinearArgs(args) /\ calls' = calls + 1 /\ UNCHANGED <<ctxs, pending>>
  /\ hist' = Append(hist, [a |-> "Call", ctx |-> c, f |-> f, args |-> args])
(* load_function(f): the LoadFunction node and the static edge *)
LoadF(k, f) ==
  LET c == ctxs[k].node n == NNodes body == NodeOp(f).signature.body IN
  /\ calls < MaxCalls /\ f \in Callable
  /\ nodes' = Append(nodes, [op |-> [op |-> "LoadFunction", func_sig |-> NodeOp(f).signature, type_args |-> <<>>, instantiation |-> body], parent |-> c])
  /\ links' = Append(links, <<f, 0, n, 0>>)
  /\ done' = done \cup {n} /\ calls' = calls + 1 /\ UNCHANGED <<ctxs, used, pending>>
  /\ hist' = Append(hist, [a |-> "LoadFunction", ctx |-> c, f |-> f])
(* add_case(i): start building one of the cases *)
AddCase(p) ==
  /\ calls < MaxCalls /\ p \in pending /\ Len(ctxs) < MaxDepth + 1
  /\ NodePar(p.cond) = ctxs[Len(ctxs)].node                       \* the conditional lives in the innermost open region
  /\ ctxs' = Append(ctxs, p) /\ pending' = pending \ {p} /\ calls' = calls + 1
  /\ UNCHANGED <<nodes, links, done, used>>
  /\ hist' = Append(hist, [a |-> "AddCase", ctx |-> p.cond, i |-> (p.node - p.cond - 1) \div 3])
(* set_outputs(args...) of the innermost open context: wires the Output node, completes Output and the container op;
   for a case also the Conditional: the first case fixes its outputs, every later one must produce the same row *)
SetOutputs(args) ==
  LET k == Len(ctxs) cx == ctxs[k] c == cx.node out == cx.out
      row == [i \in 1..Len(args) |-> WireType(args[i])]
      leftover == {w \in RegionWires(c) : Linear(WireType(w)) /\ w \notin used}
      isCase == cx.kind = "case"
      isLoop == cx.kind = "loop"
      isFunc == cx.kind \in {"func", "funcd"}
      ctl == SumRows(row[1])                                        \* loop only: the rows of the controlling sum
      condOuts == IF isCase THEN NodeOp(cx.cond).outputs ELSE <<>>
      firstCase == isCase /\ (\A q \in 0..(NNodes - 1) : (NodePar(q) = cx.cond) => q \notin done)
      siblingsOpen == {p \in pending : p.cond = cx.cond}
      condDone == isCase /\ siblingsOpen = {} /\ \A q \in 0..(NNodes - 1) : (NodePar(q) = cx.cond /\ q # c) => q \in done IN
  /\ calls < MaxCalls
  /\ Distinct(args)
  /\ leftover \subseteq LinearArgs(args)                           \* every linear value of the region is consumed
  /\ (cx.kind = "funcd") => NormRow(row) = NormRow(NodeOp(c).signature.body.output)     \* declared outputs are matched
  /\ isLoop => /\ Len(args) >= 1 /\ IsSumT(row[1]) /\ Len(ctl) = 2
               /\ NormRow(ctl[1]) = NormRow(NodeOp(c).just_inputs)          \* continue variant = just_inputs
               /\ NormRow(Tail(row)) = NormRow(NodeOp(c).rest)               \* the remaining outputs are the rest row
  /\ \A p \in pending : NodePar(p.cond) # c                        \* no conditional of this region has unbuilt cases
  /\ (isCase /\ ~firstCase) => NormRow(row) = NormRow(condOuts)   \* cases agree on their outputs
  /\ nodes' = IF isCase
                THEN [nodes EXCEPT ![out + 1].op.types = row, ![c + 1].op.signature.output = row, ![cx.cond + 1].op.outputs = row]
                ELSE IF isLoop THEN [nodes EXCEPT ![out + 1].op.types = row, ![c + 1].op.just_outputs = ctl[2]]
                ELSE IF isFunc THEN [nodes EXCEPT ![out + 1].op.types = row, ![c + 1].op.signature.body.output = row]
                ELSE [nodes EXCEPT ![out + 1].op.types = row, ![c + 1].op.signature.output = row]
  /\ links' = WireUp(links, out, c, args, 1)
  /\ done' = done \cup {out, c} \cup (IF condDone THEN {cx.cond} ELSE {})
  /\ used' = used \cup LinearArgs(args)
  /\ ctxs' = SubSeq(ctxs, 1, k - 1) /\ calls' = calls + 1 /\ UNCHANGED pending
  /\ hist' = Append(hist, [a |-> "SetOutputs", ctx |-> c, args |-> args])

(* Arguments always range over Usable(container): well-formed programs only (see the header). WiresUpTo(U, m) = sequences of <= m wires *)
WiresUpTo(U, m) == UNION {[1..j -> U] : j \in 0..m}
Next ==
  /\ calls < MaxCalls
  /\ \/ \E k \in 1..Len(ctxs), o \in {x \in Alphabet : x.name \in Ops} : \E args \in ArgsFor(ctxs[k].node, DfSig(o)[1]) : AddOp(k, o, args)
     \/ "load" \in Features /\ \E k \in 1..Len(ctxs) : Load(k)
     \/ "order" \in Features /\ \E k \in 1..Len(ctxs), a, b \in 0..(NNodes - 1) : AddStateOrder(k, a, b)
     \/ Len(ctxs) >= 1 /\ Len(ctxs) < MaxDepth /\
          LET k == Len(ctxs) U == Usable(ctxs[k].node) IN
          \/ "nested" \in Features /\ \E args \in WiresUpTo(U, 2) : AddNested(k, args)
          \/ "cond" \in Features /\ \E cw \in {w \in U : IsSumT(WireType(w))} : \E others \in WiresUpTo(U, 1) : AddConditional(k, cw, others)
          \/ "loop" \in Features /\ \E just \in WiresUpTo(U, 1) : \E rest \in WiresUpTo(U, 2) : AddTailLoop(k, just, rest)
     \/ \E p \in pending : AddCase(p)
     \/ "func" \in Features /\ Len(ctxs) < MaxDepth /\ \E ins \in FuncRows : \E d \in BOOLEAN : \E outs \in (IF d THEN FuncRows ELSE {<<>>}) : DefineFunction(ins, d, outs)
     \/ "func" \in Features /\ \E k \in 1..Len(ctxs), f \in Callable : \/ \E args \in ArgsFor(ctxs[k].node, NodeOp(f).signature.body.input) : CallF(k, f, args)
                                                                      \/ LoadF(k, f)
     \/ Len(ctxs) >= 1 /\ ctxs[Len(ctxs)].kind # "loop" /\ \E args \in WiresUpTo(Usable(ctxs[Len(ctxs)].node), 2) : SetOutputs(args)
     \/ Len(ctxs) >= 1 /\ ctxs[Len(ctxs)].kind = "loop" /\
          LET c == ctxs[Len(ctxs)].node IN
          \E s \in {w \in Usable(c) : IsSumT(WireType(w))} : \E r \in ArgsFor(c, NodeOp(c).rest) : SetOutputs(<<s>> \o r)
Spec == Init /\ [][Next]_bvars
(* bounded exploration only: a program that can no longer be finished within MaxCalls calls (every open context needs its
   set_outputs, every unbuilt case an add_case and a set_outputs) is not extended; no finished program of <= MaxCalls calls is lost *)
CanFinish == calls + Len(ctxs) + 2 * Cardinality(pending) <= MaxCalls
NextB == Next /\ CanFinish'

(* ---- the document a finished program serializes to ---- *)
Finished == ctxs = <<>> /\ pending = {}
WOff(n, o, dir) == IF o = -1 THEN OrderOffset(NodeOp(n), dir) ELSE o
Doc == [nodes |-> [k \in 1..NNodes |-> [parent |-> nodes[k].parent] @@ nodes[k].op],
        edges |-> [j \in 1..Len(links) |-> <<<<links[j][1], WOff(links[j][1], links[j][2], "out")>>,
                                             <<links[j][3], WOff(links[j][3], links[j][4], "in")>>>>]]
(* C01 for this fragment *)
FinishedValid == Finished => (User(Doc) /\ Builder(Doc))
(* every handle's output count (C16 b): the number of value outputs of the node's completed operation *)
HandleCounts == [n \in done |-> NumOut(NodeOp(n))]
=============================================================================
