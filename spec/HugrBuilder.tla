------------------------------ MODULE HugrBuilder ------------------------------
(* The dataflow builders of hugr-py (hugr.build.dfg: Dfg, add_op / add, add_nested, load, add_state_order, set_outputs)
   as an explicit state machine, at the granularity of one action per public call and mirroring what each call does
   inside: the order in which nodes are created (so that node k of the model is node k of the implementation), `_wire_up`
   linking argument i to input port i and adding the state-order edge from the source to the sibling ancestor of the
   target for a non-local wire (idempotently), completion of Output / DFG signatures by set_outputs, `load` creating the
   Const and then the LoadConstant with its static edge.

   nodes[k] = [op, parent] is node k-1 (op in wire vocabulary, possibly still incomplete: `done` lists the nodes whose
   operation is complete); links is the sequence of <<src node, src offset, dst node, dst offset>> (-1 = order port) in the
   order they are added; ctxs is the stack of open builder contexts [node, inp, out].

   Programs are well-formed by construction (arguments of the right type, linear values used once and only locally,
   non-local sources copyable and in an enclosing region, builders closed innermost-first, every linear value consumed
   before its region is closed), so User(Doc) holds in every Finished state; the invariant is C01 for this fragment:
   Finished => Valid(Doc). *)
EXTENDS HugrValidity

CONSTANTS RootInputs,     \* input row of the root Dfg, e.g. <<BoolT, QubitT>>
          MaxCalls, MaxDepth

VARIABLES nodes, links, ctxs, done, used, calls, hist
bvars == <<nodes, links, ctxs, done, used, calls, hist>>

(* ---- the operation alphabet (wire vocabulary) ---- *)
CustomOp(name, i, o) == [op |-> "Extension", extension |-> "verif.q", name |-> name, signature |-> FnT(i, o), description |-> "", args |-> <<>>]
OpNot     == [op |-> "Extension", extension |-> "logic", name |-> "Not", signature |-> FnTR(<<BoolT>>, <<BoolT>>, <<"logic">>),
              description |-> "logical 'not'", args |-> <<>>]
OpH       == CustomOp("H", <<QubitT>>, <<QubitT>>)
OpMeasure == CustomOp("Measure", <<QubitT>>, <<QubitT, BoolT>>)        \* multi-output, the Bool may stay unused
OpAlloc   == CustomOp("QAlloc", <<>>, <<QubitT>>)
OpFree    == CustomOp("QFree", <<QubitT>>, <<>>)
Alphabet  == {OpNot, OpH, OpMeasure, OpAlloc, OpFree}
TrueV == [v |-> "Sum", tag |-> 1, typ |-> UnitSumT(2), vs |-> <<>>]

NodeOp(n) == nodes[n + 1].op
NodePar(n) == nodes[n + 1].parent
NNodes == Len(nodes)
Linear(t) == Bound(t) = "A"
OutRow(n) == DfSig(NodeOp(n))[2]
WireType(w) == OutRow(w[1])[w[2] + 1]

(* ---- hierarchy helpers (as `_ancestral_sibling`) ---- *)
RECURSIVE AncSibB(_, _)
AncSibB(sp, t) == IF t = 0 THEN -1 ELSE IF NodePar(t) = sp THEN t ELSE AncSibB(sp, NodePar(t))
RECURSIVE AncestorsB(_)
AncestorsB(n) == IF n = 0 THEN {0} ELSE {n} \cup AncestorsB(NodePar(n))

(* value wires produced in the region of container c: outputs of its Input node and of the completed dataflow nodes in it *)
Producers(c) == {n \in 0..(NNodes - 1) : n # 0 /\ NodePar(n) = c /\ n \in done /\ NodeOp(n).op \notin {"Output", "Const"}}
RegionWires(c) == UNION {{<<n, o>> : o \in 0..(Len(OutRow(n)) - 1)} : n \in Producers(c)}
(* wires a new node in container c may take: local ones (linear ones only if unused), copyable ones of enclosing regions *)
Usable(c) ==
  {w \in RegionWires(c) : ~(Linear(WireType(w)) /\ w \in used)}
  \cup {w \in UNION {RegionWires(a) : a \in AncestorsB(c) \ {c}} : ~Linear(WireType(w))}

Init ==
  /\ nodes = <<[op |-> [op |-> "DFG", signature |-> FnT(RootInputs, <<>>)], parent |-> 0],
               [op |-> [op |-> "Input", types |-> RootInputs], parent |-> 0],
               [op |-> [op |-> "Output", types |-> <<>>], parent |-> 0]>>
  /\ links = <<>> /\ ctxs = <<[node |-> 0, inp |-> 1, out |-> 2]>> /\ done = {1} /\ used = {} /\ calls = 0 /\ hist = <<>>

(* `_wire_up(node, args)`: for argument i, the order edge to the sibling ancestor if the wire is non-local, then the link *)
RECURSIVE WireUp(_, _, _, _, _)
WireUp(ls, node, c, args, i) ==        \* node (possibly not yet in `nodes`) is a child of container c
  IF i > Len(args) THEN ls
  ELSE LET src == args[i]
           anc == IF NodePar(src[1]) = c THEN node ELSE AncSibB(NodePar(src[1]), c)
           ord == <<src[1], -1, anc, -1>>
           ls1 == IF anc # node /\ \A k \in 1..Len(ls) : ls[k] # ord THEN Append(ls, ord) ELSE ls
       IN WireUp(Append(ls1, <<src[1], src[2], node, i - 1>>), node, c, args, i + 1)
LinearArgs(args) == {args[i] : i \in {j \in 1..Len(args) : Linear(WireType(args[j]))}}
Distinct(args) == \A i, j \in 1..Len(args) : (i # j /\ Linear(WireType(args[i]))) => args[i] # args[j]
ArgsFor(c, row) == {a \in [1..Len(row) -> Usable(c)] : (\A i \in 1..Len(row) : NormT(WireType(a[i])) = NormT(row[i])) /\ Distinct(a)}

(* add_op(op, args...) / add(op(args...)) in the context whose container is c *)
AddOp(k, o, args) ==
  LET c == ctxs[k].node n == NNodes IN
  /\ calls < MaxCalls /\ args \in ArgsFor(c, DfSig(o)[1])
  /\ nodes' = Append(nodes, [op |-> o, parent |-> c])
  /\ links' = WireUp(links, n, c, args, 1)
  /\ done' = done \cup {n} /\ used' = used \cup LinearArgs(args)
  /\ calls' = calls + 1 /\ UNCHANGED ctxs
  /\ hist' = Append(hist, [a |-> "AddOp", ctx |-> c, op |-> o.name, args |-> args])
(* load(value): Const node, then LoadConstant node, then the static edge *)
Load(k) ==
  LET c == ctxs[k].node n == NNodes IN
  /\ calls < MaxCalls
  /\ nodes' = nodes \o <<[op |-> [op |-> "Const", v |-> TrueV], parent |-> c],
                         [op |-> [op |-> "LoadConstant", datatype |-> BoolT], parent |-> c]>>
  /\ links' = Append(links, <<n, 0, n + 1, 0>>)
  /\ done' = done \cup {n, n + 1} /\ calls' = calls + 1 /\ UNCHANGED <<ctxs, used>>
  /\ hist' = Append(hist, [a |-> "Load", ctx |-> c])
(* add_nested(args...): DFG node (inputs = argument types), its Input and Output, then the arguments are wired to it *)
AddNested(k, args) ==
  LET c == ctxs[k].node n == NNodes
      row == [i \in 1..Len(args) |-> WireType(args[i])] IN
  /\ calls < MaxCalls /\ Len(ctxs) < MaxDepth /\ k = Len(ctxs)
  /\ args \in UNION {[1..m -> Usable(c)] : m \in 0..2} /\ Distinct(args)
  /\ nodes' = nodes \o <<[op |-> [op |-> "DFG", signature |-> FnT(row, <<>>)], parent |-> c],
                         [op |-> [op |-> "Input", types |-> row], parent |-> n],
                         [op |-> [op |-> "Output", types |-> <<>>], parent |-> n]>>
  /\ links' = WireUp(links, n, c, args, 1)
  /\ ctxs' = Append(ctxs, [node |-> n, inp |-> n + 1, out |-> n + 2])
  /\ done' = done \cup {n + 1} /\ used' = used \cup LinearArgs(args) /\ calls' = calls + 1
  /\ hist' = Append(hist, [a |-> "AddNested", ctx |-> c, args |-> args])
(* add_state_order(a, b) between two siblings, a created before b *)
AddStateOrder(k, a, b) ==
  LET c == ctxs[k].node IN
  /\ calls < MaxCalls /\ a < b /\ NodePar(a) = c /\ NodePar(b) = c /\ a # 0
  /\ HasOrder(NodeOp(a), "out") /\ HasOrder(NodeOp(b), "in") /\ a \in done \cup {ctxs[k].inp} /\ (b \in done \/ b = ctxs[k].out)
  /\ \A j \in 1..Len(links) : links[j] # <<a, -1, b, -1>>
  /\ LET E == {<<links[j][1], AncSibB(c, links[j][3])>> : j \in {x \in 1..Len(links) : NodePar(links[x][1]) = c}} IN
     a \notin Reach({e \in E : e[2] >= 0}, {b}, NNodes)          \* keeps the sibling graph acyclic
  /\ links' = Append(links, <<a, -1, b, -1>>) /\ calls' = calls + 1 /\ UNCHANGED <<nodes, ctxs, done, used>>
  /\ hist' = Append(hist, [a |-> "AddStateOrder", ctx |-> c, x |-> a, y |-> b])
(* set_outputs(args...) of the innermost open context: wires the Output node, completes Output and the container op *)
SetOutputs(args) ==
  LET k == Len(ctxs) c == ctxs[k].node out == ctxs[k].out
      row == [i \in 1..Len(args) |-> WireType(args[i])]
      leftover == {w \in RegionWires(c) : Linear(WireType(w)) /\ w \notin used} IN
  /\ calls < MaxCalls
  /\ args \in UNION {[1..m -> Usable(c)] : m \in 0..2} /\ Distinct(args)
  /\ leftover \subseteq LinearArgs(args)                           \* every linear value of the region is consumed
  /\ nodes' = [nodes EXCEPT ![out + 1].op.types = row, ![c + 1].op.signature.output = row]
  /\ links' = WireUp(links, out, c, args, 1)
  /\ done' = done \cup {out, c} /\ used' = used \cup LinearArgs(args)
  /\ ctxs' = SubSeq(ctxs, 1, k - 1) /\ calls' = calls + 1
  /\ hist' = Append(hist, [a |-> "SetOutputs", ctx |-> c, args |-> args])

Next ==
  \/ \E k \in 1..Len(ctxs), o \in Alphabet : \E args \in ArgsFor(ctxs[k].node, DfSig(o)[1]) : AddOp(k, o, args)
  \/ \E k \in 1..Len(ctxs) : Load(k)
  \/ \E k \in 1..Len(ctxs) : \E args \in UNION {[1..m -> Usable(ctxs[k].node)] : m \in 0..2} : AddNested(k, args)
  \/ \E k \in 1..Len(ctxs), a, b \in 0..(NNodes - 1) : AddStateOrder(k, a, b)
  \/ Len(ctxs) >= 1 /\ \E args \in UNION {[1..m -> Usable(ctxs[Len(ctxs)].node)] : m \in 0..2} : SetOutputs(args)
Spec == Init /\ [][Next]_bvars

(* ---- the document a finished program serializes to ---- *)
Finished == ctxs = <<>>
WOff(n, o, dir) == IF o = -1 THEN OrderOffset(NodeOp(n), dir) ELSE o
Doc == [nodes |-> [k \in 1..NNodes |-> [parent |-> nodes[k].parent] @@ nodes[k].op],
        edges |-> [j \in 1..Len(links) |-> <<<<links[j][1], WOff(links[j][1], links[j][2], "out")>>,
                                             <<links[j][3], WOff(links[j][3], links[j][4], "in")>>>>]]
(* C01 for this fragment *)
FinishedValid == Finished => (User(Doc) /\ Builder(Doc))
(* every handle's output count (C16 b): the number of value outputs of the node's completed operation *)
HandleCounts == [n \in done |-> NumOut(NodeOp(n))]
=============================================================================
