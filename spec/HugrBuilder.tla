------------------------------ MODULE HugrBuilder ------------------------------
(* The dataflow builders of hugr-py (hugr.build.dfg: Dfg, add_op / add, add_nested, load, add_state_order, set_outputs)
   as an explicit state machine, at the granularity of one action per public call and mirroring what each call does
   inside: the order in which nodes are created (so that node k of the model is node k of the implementation), `_wire_up`
   linking argument i to input port i and adding the state-order edge from the source to the sibling ancestor of the
   target for a non-local wire (idempotently), completion of Output / DFG signatures by set_outputs, `load` creating the
   Const and then the LoadConstant with its static edge.

   nodes[k] = [op, parent] is node k-1 (op in wire vocabulary, possibly still incomplete: `done` lists the nodes whose
   operation is complete); links is the sequence of <<src node, src offset, dst node, dst offset>> (-1 = order port) in the
   order they are added; ctxs is the stack of open builder contexts [node, inp, out].

   Programs are well-formed by construction (arguments of the right type, linear values used once and only locally,
   non-local sources copyable and in an enclosing region, builders closed innermost-first, every linear value consumed
   before its region is closed), so User(Doc) holds in every Finished state; the invariant is C01 for this fragment:
   Finished => Valid(Doc). *)
EXTENDS HugrValidity

CONSTANTS RootInputs,     \* input row of the root Dfg, e.g. <<BoolT, QubitT>>
          MaxCalls, MaxDepth,
          Ops,            \* names of the alphabet operations a configuration uses
          ModuleRoot,     \* TRUE: the root is a Module (functions, declarations and calls only); FALSE: a Dfg over RootInputs
          MaxBlocks,      \* blocks per CFG (entry included)
          MaxArgs,        \* arguments of add_nested / add_cfg / set_outputs and the rest row of add_tail_loop (<= 2)
          Features        \* subset of {"load", "nested", "order", "cond", "loop"}: the builder calls a configuration explores

VARIABLES nodes, links, ctxs, pending, done, used, calls, hist,
          refused      \* "" or the error class the last (inconsistent) call must raise; such a call ends the program (C13)
bvars == <<nodes, links, ctxs, pending, done, used, calls, hist, refused>>

(* ---- the operation alphabet (wire vocabulary) ---- *)
CustomOp(name, i, o) == [op |-> "Extension", extension |-> "verif.q", name |-> name, signature |-> FnT(i, o), description |-> "", args |-> <<>>]
OpNot     == [op |-> "Extension", extension |-> "logic", name |-> "Not", signature |-> FnTR(<<BoolT>>, <<BoolT>>, <<"logic">>),
              description |-> "logical 'not'", args |-> <<>>]
OpH       == CustomOp("H", <<QubitT>>, <<QubitT>>)
OpMeasure == CustomOp("Measure", <<QubitT>>, <<QubitT, BoolT>>)        \* multi-output, the Bool may stay unused
OpAlloc   == CustomOp("QAlloc", <<>>, <<QubitT>>)
OpFree    == CustomOp("QFree", <<QubitT>>, <<>>)
OptB      == GenSumT(<<<<>>, <<BoolT>>>>)                                \* Option(Bool)
OpSome    == [op |-> "Tag", name |-> "Some", tag |-> 1, variants |-> <<<<>>, <<BoolT>>>>]
OpNone    == [op |-> "Tag", name |-> "None", tag |-> 0, variants |-> <<<<>>, <<BoolT>>>>]
OpCont    == [op |-> "Tag", name |-> "Cont", tag |-> 0, variants |-> <<<<BoolT>>, <<>>>>]     \* loop control Sum([[Bool], []]): continue with a Bool
OpBrk     == [op |-> "Tag", name |-> "Brk", tag |-> 1, variants |-> <<<<BoolT>>, <<>>>>]
Alphabet  == {OpNot, OpH, OpMeasure, OpAlloc, OpFree, OpSome, OpNone, OpCont, OpBrk}
StripName(o) == IF o.op = "Tag" THEN [op |-> "Tag", tag |-> o.tag, variants |-> o.variants] ELSE o
TrueV == [v |-> "Sum", tag |-> 1, typ |-> UnitSumT(2), vs |-> <<>>]
UnitV == [v |-> "Sum", tag |-> 0, typ |-> UnitSumT(1), vs |-> <<>>]

NodeOp(n) == nodes[n + 1].op
NodePar(n) == nodes[n + 1].parent
NNodes == Len(nodes)
Linear(t) == Bound(t) = "A"
OutRow(n) == DfSig(NodeOp(n))[2]
WireType(w) == OutRow(w[1])[w[2] + 1]

(* ---- hierarchy helpers (as `_ancestral_sibling`) ---- *)
RECURSIVE AncSibB(_, _)
AncSibB(sp, t) == IF t = 0 THEN -1 ELSE IF NodePar(t) = sp THEN t ELSE AncSibB(sp, NodePar(t))
RECURSIVE AncestorsB(_)
AncestorsB(n) == IF n = 0 THEN {0} ELSE {n} \cup AncestorsB(NodePar(n))
(* the enclosing regions a value may come from: up to and including the nearest function body (no value edge enters a FuncDefn) *)
RECURSIVE ValueAncB(_)
ValueAncB(n) == IF n = 0 \/ NodeOp(n).op = "FuncDefn" THEN {n} ELSE {n} \cup ValueAncB(NodePar(n))

(* value wires produced in the region of container c: outputs of its Input node and of the completed dataflow nodes in it *)
Producers(c) == {n \in 0..(NNodes - 1) : n # 0 /\ NodePar(n) = c /\ n \in done /\ NodeOp(n).op \notin {"Output", "Const", "Case", "FuncDefn", "FuncDecl", "DataflowBlock", "ExitBlock"}}
RegionWires(c) == UNION {{<<n, o>> : o \in 0..(Len(OutRow(n)) - 1)} : n \in Producers(c)}
(* wires a new node in container c may take: local ones (linear ones only if unused), copyable ones of enclosing regions *)
(* Dom wires: a node placed directly in a basic block may take a copyable value produced directly in another block of the same
   CFG (the program owes dominance, checked when the CFG's region is closed; `_wire_up_port` of Block adds no order edge) *)
DomWires(c) == IF "dom" \in Features /\ c # 0 /\ NodeOp(c).op = "DataflowBlock"
               THEN {w \in UNION {RegionWires(a) : a \in {x \in 0..(NNodes - 1) : x # c /\ x # 0 /\ NodePar(x) = NodePar(c) /\ NodeOp(x).op = "DataflowBlock"}} :
                       ~Linear(WireType(w))}
               ELSE {}
Usable(c) ==
  {w \in RegionWires(c) : ~(Linear(WireType(w)) /\ w \in used)}
  \cup {w \in UNION {RegionWires(a) : a \in ValueAncB(c) \ {c}} : ~Linear(WireType(w)) /\ w[1] \notin AncestorsB(c)}
  \* (w[1] \notin AncestorsB(c): a CFG knows its outputs after the first exit branch, while its blocks may still be under construction)
  \cup DomWires(c)

Init ==
  /\ IF ModuleRoot
       THEN nodes = <<[op |-> [op |-> "Module"], parent |-> 0]>> /\ ctxs = <<>> /\ done = {0}
       ELSE /\ nodes = <<[op |-> [op |-> "DFG", signature |-> FnT(RootInputs, <<>>)], parent |-> 0],
                         [op |-> [op |-> "Input", types |-> RootInputs], parent |-> 0],
                         [op |-> [op |-> "Output", types |-> <<>>], parent |-> 0]>>
            /\ ctxs = <<[node |-> 0, inp |-> 1, out |-> 2, kind |-> "dfg", cond |-> -1]>> /\ done = {1}
  /\ links = <<>> /\ pending = {} /\ used = {} /\ calls = 0 /\ hist = <<>> /\ refused = ""

(* `_wire_up(node, args)`: for argument i, the order edge to the sibling ancestor if the wire is non-local, then the link *)
RECURSIVE WireUp(_, _, _, _, _)
WireUp(ls, node, c, args, i) ==        \* node (possibly not yet in `nodes`) is a child of container c
  IF i > Len(args) THEN ls
  ELSE LET src == args[i]
           anc == IF NodePar(src[1]) = c THEN node ELSE AncSibB(NodePar(src[1]), c)
           ord == <<src[1], -1, anc, -1>>
           ls1 == IF anc >= 0 /\ anc # node /\ \A k \in 1..Len(ls) : ls[k] # ord THEN Append(ls, ord) ELSE ls     \* anc < 0: a Dom wire
       IN WireUp(Append(ls1, <<src[1], src[2], node, i - 1>>), node, c, args, i + 1)
LinearArgs(args) == {args[i] : i \in {j \in 1..Len(args) : Linear(WireType(args[j]))}}
Distinct(args) == \A i, j \in 1..Len(args) : (i # j /\ Linear(WireType(args[i]))) => args[i] # args[j]
ArgsFor(c, row) == {a \in [1..Len(row) -> Usable(c)] : (\A i \in 1..Len(row) : NormT(WireType(a[i])) = NormT(row[i])) /\ Distinct(a)}

(* add_op(op, args...) / add(op(args...)) in the context whose container is c *)
AddOp(k, o, args) ==
  LET c == ctxs[k].node n == NNodes IN
  /\ calls < MaxCalls
  /\ nodes' = Append(nodes, [op |-> StripName(o), parent |-> c])
  /\ links' = WireUp(links, n, c, args, 1)
  /\ done' = done \cup {n} /\ used' = used \cup LinearArgs(args)
  /\ calls' = calls + 1 /\ UNCHANGED <<ctxs, pending>>
  /\ hist' = Append(hist, [a |-> "AddOp", ctx |-> c, op |-> o.name, args |-> args])
(* load(value): Const node, then LoadConstant node, then the static edge; unit = FALSE loads TRUE : Bool, unit = TRUE loads the
   unit value (what set_single_succ_outputs branches on) *)
Load(k, unit) ==
  LET c == ctxs[k].node n == NNodes IN
  /\ calls < MaxCalls
  /\ nodes' = nodes \o <<[op |-> [op |-> "Const", v |-> IF unit THEN UnitV ELSE TrueV], parent |-> c],
                         [op |-> [op |-> "LoadConstant", datatype |-> IF unit THEN UnitSumT(1) ELSE BoolT], parent |-> c]>>
  /\ links' = Append(links, <<n, 0, n + 1, 0>>)
  /\ done' = done \cup {n, n + 1} /\ calls' = calls + 1 /\ UNCHANGED <<ctxs, used, pending>>
  /\ hist' = Append(hist, [a |-> IF unit THEN "LoadUnit" ELSE "Load", ctx |-> c])
(* add_nested(args...): DFG node (inputs = argument types), its Input and Output, then the arguments are wired to it *)
AddNested(k, args) ==
  LET c == ctxs[k].node n == NNodes
      row == [i \in 1..Len(args) |-> WireType(args[i])] IN
  /\ calls < MaxCalls /\ Len(ctxs) < MaxDepth /\ k = Len(ctxs)
  /\ Distinct(args)
  /\ nodes' = nodes \o <<[op |-> [op |-> "DFG", signature |-> FnT(row, <<>>)], parent |-> c],
                         [op |-> [op |-> "Input", types |-> row], parent |-> n],
                         [op |-> [op |-> "Output", types |-> <<>>], parent |-> n]>>
  /\ links' = WireUp(links, n, c, args, 1)
  /\ ctxs' = Append(ctxs, [node |-> n, inp |-> n + 1, out |-> n + 2, kind |-> "dfg", cond |-> -1])
  /\ done' = done \cup {n + 1} /\ used' = used \cup LinearArgs(args) /\ calls' = calls + 1 /\ UNCHANGED pending
  /\ hist' = Append(hist, [a |-> "AddNested", ctx |-> c, args |-> args])
(* add_state_order(a, b) between two siblings, a created before b *)
AddStateOrder(k, a, b) ==
  LET c == ctxs[k].node IN
  /\ calls < MaxCalls /\ a < b /\ NodePar(a) = c /\ NodePar(b) = c /\ a # 0
  /\ HasOrder(NodeOp(a), "out") /\ HasOrder(NodeOp(b), "in") /\ a \in done \cup {ctxs[k].inp} /\ (b \in done \/ b = ctxs[k].out)
  /\ \A j \in 1..Len(links) : links[j] # <<a, -1, b, -1>>
  /\ LET E == {<<links[j][1], AncSibB(c, links[j][3])>> : j \in {x \in 1..Len(links) : NodePar(links[x][1]) = c}} IN
     a \notin Reach({e \in E : e[2] >= 0}, {b}, NNodes)          \* keeps the sibling graph acyclic
  /\ links' = Append(links, <<a, -1, b, -1>>) /\ calls' = calls + 1 /\ UNCHANGED <<nodes, ctxs, done, used, pending>>
  /\ hist' = Append(hist, [a |-> "AddStateOrder", ctx |-> c, x |-> a, y |-> b])
(* add_conditional(cond_wire, others...): the Conditional node, then for every variant a Case node with its Input and Output
   (all cases are created up front), then the arguments are wired to the Conditional *)
CondRows(t) == SumRows(t)
CaseCtx(n, i) == [node |-> n + 1 + 3 * (i - 1), inp |-> n + 2 + 3 * (i - 1), out |-> n + 3 + 3 * (i - 1), kind |-> "case", cond |-> n]     \* i-th case (1-based) of the conditional n
CondCommon(k, cw, others) ==
  LET c == ctxs[k].node n == NNodes
      rows == CondRows(WireType(cw))
      orow == [i \in 1..Len(others) |-> WireType(others[i])]
      caseNodes(i) == <<[op |-> [op |-> "Case", signature |-> FnT(rows[i] \o orow, <<>>)], parent |-> n],
                       [op |-> [op |-> "Input", types |-> rows[i] \o orow], parent |-> n + 1 + 3 * (i - 1)],
                       [op |-> [op |-> "Output", types |-> <<>>], parent |-> n + 1 + 3 * (i - 1)]>>
      RECURSIVE AllCases(_) AllCases(i) == IF i > Len(rows) THEN <<>> ELSE caseNodes(i) \o AllCases(i + 1) IN
  /\ calls < MaxCalls /\ Len(ctxs) < MaxDepth /\ k = Len(ctxs)
  /\ IsSumT(WireType(cw)) /\ Len(rows) = 2 /\ (\A i \in 1..Len(others) : others[i] # cw) /\ Distinct(others)
  /\ nodes' = nodes \o <<[op |-> [op |-> "Conditional", sum_rows |-> rows, other_inputs |-> orow, outputs |-> <<>>, extension_delta |-> <<>>],
                            parent |-> c]>> \o AllCases(1)
  /\ links' = WireUp(links, n, c, <<cw>> \o others, 1)
  /\ done' = done \cup {n + 2 + 3 * (i - 1) : i \in 1..Len(rows)}
  /\ used' = used \cup LinearArgs(<<cw>> \o others) /\ calls' = calls + 1
AddConditional(k, cw, others) ==
  /\ CondCommon(k, cw, others)
  /\ pending' = pending \cup {CaseCtx(NNodes, i) : i \in 1..2} /\ UNCHANGED ctxs
  /\ hist' = Append(hist, [a |-> "AddConditional", ctx |-> ctxs[k].node, args |-> <<cw>> \o others])
(* add_if(cond, others...) = add_conditional + add_case(1) in one call; If.add_else() = add_case(0) *)
AddIf(k, cw, others) ==
  /\ CondCommon(k, cw, others) /\ NormT(WireType(cw)) = NormT(BoolT)
  /\ ctxs' = Append(ctxs, CaseCtx(NNodes, 2)) /\ pending' = pending \cup {CaseCtx(NNodes, 1)}
  /\ hist' = Append(hist, [a |-> "AddIf", ctx |-> ctxs[k].node, args |-> <<cw>> \o others])
(* add_tail_loop(just_inputs, rest): the TailLoop node (just_outputs still unknown), its Input (just_inputs ++ rest) and Output,
   then the arguments are wired to it *)
AddTailLoop(k, just, rest) ==
  LET c == ctxs[k].node n == NNodes
      jrow == [i \in 1..Len(just) |-> WireType(just[i])]
      rrow == [i \in 1..Len(rest) |-> WireType(rest[i])] IN
  /\ calls < MaxCalls /\ Len(ctxs) < MaxDepth /\ k = Len(ctxs)
  /\ Distinct(just \o rest)
  /\ nodes' = nodes \o <<[op |-> [op |-> "TailLoop", just_inputs |-> jrow, just_outputs |-> <<>>, rest |-> rrow, extension_delta |-> <<>>], parent |-> c],
                         [op |-> [op |-> "Input", types |-> jrow \o rrow], parent |-> n],
                         [op |-> [op |-> "Output", types |-> <<>>], parent |-> n]>>
  /\ links' = WireUp(links, n, c, just \o rest, 1)
  /\ ctxs' = Append(ctxs, [node |-> n, inp |-> n + 1, out |-> n + 2, kind |-> "loop", cond |-> -1])
  /\ done' = done \cup {n + 1} /\ used' = used \cup LinearArgs(just \o rest) /\ calls' = calls + 1 /\ UNCHANGED pending
  /\ hist' = Append(hist, [a |-> "AddTailLoop", ctx |-> c, just |-> just, rest |-> rest])
(* define_function(name, inputs, outputs?): FuncDefn (a child of the root), its Input and Output; with declared outputs the
   function can be called (also recursively) before it is finished *)
FuncRows == {<<>>, <<BoolT>>, <<QubitT>>}
Funcs == {n \in 0..(NNodes - 1) : NodeOp(n).op \in {"FuncDefn", "FuncDecl"}}
IsPoly(f) == NodeOp(f).signature.params # <<>>
Callable == {f \in Funcs : f \in done /\ ~IsPoly(f)}
DefineFunction(ins, declared, outs) ==
  LET n == NNodes IN
  /\ calls < MaxCalls /\ Len(ctxs) < MaxDepth /\ Cardinality({f \in Funcs : NodeOp(f).op = "FuncDefn"}) < 2
  /\ nodes' = nodes \o <<[op |-> [op |-> "FuncDefn", name |-> "f", signature |-> [params |-> <<>>, body |-> FnT(ins, IF declared THEN outs ELSE <<>>)]], parent |-> 0],
                         [op |-> [op |-> "Input", types |-> ins], parent |-> n],
                         [op |-> [op |-> "Output", types |-> <<>>], parent |-> n]>>
  /\ ctxs' = Append(ctxs, [node |-> n, inp |-> n + 1, out |-> n + 2, kind |-> IF declared THEN "funcd" ELSE "func", cond |-> -1])
  /\ done' = done \cup {n + 1} \cup (IF declared THEN {n} ELSE {}) /\ calls' = calls + 1 /\ UNCHANGED <<links, used, pending>>
  /\ hist' = Append(hist, [a |-> "DefineFunction", ctx |-> 0, ins |-> ins, declared |-> declared, outs |-> outs])
(* declare_function(name, signature): a FuncDecl child of the (module) root; either monomorphic Bool -> Bool or polymorphic over a row *)
MonoDecl == [params |-> <<>>, body |-> FnT(<<BoolT>>, <<BoolT>>)]
RowDecl  == [params |-> <<[tp |-> "List", param |-> [tp |-> "Type", b |-> "A"]]>>,
             body |-> FnT(<<[t |-> "R", i |-> 0, b |-> "A"]>>, <<[t |-> "R", i |-> 0, b |-> "A"]>>)]        \* forall R : [Type]. R -> R
DeclareFunction(poly) ==
  LET n == NNodes IN
  /\ calls < MaxCalls /\ Cardinality({f \in Funcs : NodeOp(f).op = "FuncDecl"}) < 2
  /\ \A f \in Funcs : NodeOp(f).op = "FuncDecl" => IsPoly(f) # poly
  /\ nodes' = Append(nodes, [op |-> [op |-> "FuncDecl", name |-> IF poly THEN "row_id" ELSE "decl", signature |-> IF poly THEN RowDecl ELSE MonoDecl], parent |-> 0])
  /\ done' = done \cup {n} /\ calls' = calls + 1 /\ UNCHANGED <<links, ctxs, used, pending>>
  /\ hist' = Append(hist, [a |-> "DeclareFunction", ctx |-> 0, poly |-> poly])
(* call(f, args..., instantiation, type_args) of the row-polymorphic declaration at the row of the argument types: the static port
   sits after the *instantiated* value inputs *)
CallPoly(k, f, args) ==
  LET c == ctxs[k].node n == NNodes
      row == [i \in 1..Len(args) |-> WireType(args[i])] IN
  /\ calls < MaxCalls /\ f \in Funcs /\ f \in done /\ IsPoly(f) /\ Distinct(args) /\ Len(args) # 1
  /\ nodes' = Append(nodes, [op |-> [op |-> "Call", func_sig |-> NodeOp(f).signature,
                                    type_args |-> <<[tya |-> "Sequence", elems |-> [i \in 1..Len(row) |-> TyArg(row[i])]]>>,
                                    instantiation |-> FnT(row, row)], parent |-> c])
  /\ links' = WireUp(Append(links, <<f, 0, n, Len(row)>>), n, c, args, 1)
  /\ done' = done \cup {n} /\ used' = used \cup LinearArgs(args) /\ calls' = calls + 1 /\ UNCHANGED <<ctxs, pending>>
  /\ hist' = Append(hist, [a |-> "CallPoly", ctx |-> c, f |-> f, args |-> args])
(* call(f, args...): the Call node, the static edge from the function to the port after the value inputs, then the arguments *)
CallF(k, f, args) ==
  LET c == ctxs[k].node n == NNodes body == NodeOp(f).signature.body IN
  /\ calls < MaxCalls /\ f \in Callable
  /\ nodes' = Append(nodes, [op |-> [op |-> "Call", func_sig |-> NodeOp(f).signature, type_args |-> <<>>, instantiation |-> body], parent |-> c])
  /\ links' = WireUp(Append(links, <<f, 0, n, Len(body.input)>>), n, c, args, 1)
  /\ done' = done \cup {n} /\ used' = used \cup LinearArgs(args) /\ calls' = calls + 1 /\ UNCHANGED <<ctxs, pending>>
  /\ hist' = Append(hist, [a |-> "Call", ctx |-> c, f |-> f, args |-> args])
(* load_function(f): the LoadFunction node and the static edge *)
LoadF(k, f) ==
  LET c == ctxs[k].node n == NNodes body == NodeOp(f).signature.body IN
  /\ calls < MaxCalls /\ f \in Callable
  /\ nodes' = Append(nodes, [op |-> [op |-> "LoadFunction", func_sig |-> NodeOp(f).signature, type_args |-> <<>>, instantiation |-> body], parent |-> c])
  /\ links' = Append(links, <<f, 0, n, 0>>)
  /\ done' = done \cup {n} /\ calls' = calls + 1 /\ UNCHANGED <<ctxs, used, pending>>
  /\ hist' = Append(hist, [a |-> "LoadFunction", ctx |-> c, f |-> f])
(* ---- the document the current store serializes to (complete in Finished states) ---- *)
WOff(n, o, dir) == IF o = -1 THEN OrderOffset(NodeOp(n), dir) ELSE o
Doc == [nodes |-> [k \in 1..NNodes |-> [parent |-> nodes[k].parent] @@ nodes[k].op],
        edges |-> [j \in 1..Len(links) |-> <<<<links[j][1], WOff(links[j][1], links[j][2], "out")>>,
                                             <<links[j][3], WOff(links[j][3], links[j][4], "in")>>>>]]
DomUsesOK(g) == \A j \in 1..Len(links) :
  LET a == NodePar(links[j][1]) b == NodePar(links[j][3]) IN
  (links[j][2] >= 0 /\ a # b /\ a # 0 /\ b # 0 /\ NodePar(a) = g /\ NodePar(b) = g /\ NodeOp(a).op = "DataflowBlock") => Dominates(Doc, g, a, b)
(* ---- control-flow graphs ----
   add_cfg(args...): the CFG node, the entry block (DataflowBlock with the CFG's inputs, its Input and Output), the exit block
   (second child), then the arguments are wired to the CFG. Blocks are dataflow contexts of kind "block" (cond = their CFG). *)
BlockNodes(n, parent, row) ==
  <<[op |-> [op |-> "DataflowBlock", inputs |-> row, other_outputs |-> <<>>, sum_rows |-> <<>>, extension_delta |-> <<>>], parent |-> parent],
    [op |-> [op |-> "Input", types |-> row], parent |-> n],
    [op |-> [op |-> "Output", types |-> <<>>], parent |-> n]>>
BlockCtx(n, g) == [node |-> n, inp |-> n + 1, out |-> n + 2, kind |-> "block", cond |-> g]
Inserted(n) == "ins" \in DOMAIN nodes[n + 1]
Cfgs == {n \in 0..(NNodes - 1) : NodeOp(n).op = "CFG" /\ ~Inserted(n)}          \* the CFGs a Cfg builder exists for
ExitOf(g) == g + 4
BlocksOf(g) == {n \in 0..(NNodes - 1) : NodePar(n) = g /\ NodeOp(n).op = "DataflowBlock"}
SuccLinked(b, i) == \E j \in 1..Len(links) : links[j][1] = b /\ links[j][2] = i
FreeSucc(g) == {<<b, i>> \in BlocksOf(g) \X (0..2) : b \in done /\ i < Len(NodeOp(b).sum_rows) /\ ~SuccLinked(b, i)}
CfgComplete(g) == /\ ExitOf(g) \in done /\ FreeSucc(g) = {} /\ BlocksOf(g) \subseteq done
                  /\ \A p \in pending : p.cond # g
CfgRows == {<<>>, <<BoolT>>, <<QubitT>>}
AddCfg(k, args) ==
  LET c == ctxs[k].node n == NNodes
      row == [i \in 1..Len(args) |-> WireType(args[i])] IN
  /\ calls < MaxCalls /\ Distinct(args)
  /\ nodes' = nodes \o <<[op |-> [op |-> "CFG", signature |-> FnT(row, <<>>)], parent |-> c]>> \o BlockNodes(n + 1, n, row)
                       \o <<[op |-> [op |-> "ExitBlock", cfg_outputs |-> <<>>], parent |-> n]>>
  /\ links' = WireUp(links, n, c, args, 1)
  /\ pending' = pending \cup {BlockCtx(n + 1, n)}
  /\ done' = done \cup {n + 2} /\ used' = used \cup LinearArgs(args) /\ calls' = calls + 1 /\ UNCHANGED ctxs
  /\ hist' = Append(hist, [a |-> "AddCfg", ctx |-> c, args |-> args])
(* add_block(types...) / add_successor(pred[i]): a new block; the latter takes the row successor i of pred receives and links it *)
AddBlock(g, row) ==
  LET n == NNodes IN
  /\ calls < MaxCalls /\ NodePar(g) = ctxs[Len(ctxs)].node
  /\ nodes' = nodes \o BlockNodes(n, g, row)
  /\ ctxs' = Append(ctxs, BlockCtx(n, g)) /\ done' = done \cup {n + 1} /\ calls' = calls + 1 /\ UNCHANGED <<links, used, pending>>
  /\ hist' = Append(hist, [a |-> "AddBlock", ctx |-> g, row |-> row])
AddSuccessor(g, b, i) ==
  LET n == NNodes row == SuccOutputs(NodeOp(b), i) IN
  /\ calls < MaxCalls /\ NodePar(g) = ctxs[Len(ctxs)].node /\ <<b, i>> \in FreeSucc(g)
  /\ nodes' = nodes \o BlockNodes(n, g, row)
  /\ links' = Append(links, <<b, i, n, 0>>)
  /\ ctxs' = Append(ctxs, BlockCtx(n, g)) /\ done' = done \cup {n + 1} /\ calls' = calls + 1 /\ UNCHANGED <<used, pending>>
  /\ hist' = Append(hist, [a |-> "AddSuccessor", ctx |-> g, b |-> b, i |-> i])
(* branch(pred[i], dst) between existing blocks (loops and the entry block included) *)
Branch(g, b, i, dst) ==
  /\ calls < MaxCalls /\ <<b, i>> \in FreeSucc(g) /\ dst \in BlocksOf(g)
  /\ NormRow(SuccOutputs(NodeOp(b), i)) = NormRow(NodeOp(dst).inputs)
  /\ links' = Append(links, <<b, i, dst, 0>>) /\ calls' = calls + 1 /\ UNCHANGED <<nodes, ctxs, done, used, pending>>
  /\ hist' = Append(hist, [a |-> "Branch", ctx |-> g, b |-> b, i |-> i, dst |-> dst])
(* branch_exit(pred[i]): the first one establishes the outputs of the exit block and of the CFG, later ones must agree *)
BranchExit(g, b, i) ==
  LET row == SuccOutputs(NodeOp(b), i) e == ExitOf(g) IN
  /\ calls < MaxCalls /\ <<b, i>> \in FreeSucc(g)
  /\ e \in done => NormRow(row) = NormRow(NodeOp(e).cfg_outputs)
  /\ nodes' = IF e \in done THEN nodes ELSE [nodes EXCEPT ![e + 1].op.cfg_outputs = row, ![g + 1].op.signature.output = row]
  /\ links' = Append(links, <<b, i, e, 0>>)
  /\ done' = done \cup {e, g} /\ calls' = calls + 1 /\ UNCHANGED <<ctxs, used, pending>>
  /\ hist' = Append(hist, [a |-> "BranchExit", ctx |-> g, b |-> b, i |-> i])
(* ---- insert_nested / insert_tail_loop / insert_conditional / insert_cfg ----
   A HUGR built beforehand with a stand-alone builder is copied under the current container (`Hugr.insert_hugr`: nodes in
   hierarchy order, which for a builder-made HUGR is index order, so node j of the template becomes node n + j; then its links),
   and the arguments are wired to the copy of its root. The templates are what the stand-alone builders produce for fixed small
   programs (the replay builds them with the real builders, so a wrong template shows as a mismatch on the unchanged tree). *)
TNode(o, p) == [op |-> o, parent |-> p]
Templates == [
  id |->      \* Dfg(Bool): set_outputs(in0)
    [nodes |-> <<TNode([op |-> "DFG", signature |-> FnT(<<BoolT>>, <<BoolT>>)], 0), TNode([op |-> "Input", types |-> <<BoolT>>], 0),
                 TNode([op |-> "Output", types |-> <<BoolT>>], 0)>>,
     links |-> <<<<1, 0, 2, 0>>>>],
  nestext |->  \* Dfg(Bool): a nested Dfg() whose Not takes the outer input (Ext wire + order edge); set_outputs(nested[0])
    [nodes |-> <<TNode([op |-> "DFG", signature |-> FnT(<<BoolT>>, <<BoolT>>)], 0), TNode([op |-> "Input", types |-> <<BoolT>>], 0),
                 TNode([op |-> "Output", types |-> <<BoolT>>], 0),
                 TNode([op |-> "DFG", signature |-> FnT(<<>>, <<BoolT>>)], 0), TNode([op |-> "Input", types |-> <<>>], 3),
                 TNode([op |-> "Output", types |-> <<BoolT>>], 3), TNode(OpNot, 3)>>,
     links |-> <<<<1, -1, 3, -1>>, <<1, 0, 6, 0>>, <<6, 0, 5, 0>>, <<3, 0, 2, 0>>>>],
  loop |->     \* TailLoop([Bool], [Qubit]): ctl = Tag(0, Sum([[Bool], []]))(in0) (continue with the Bool), set_loop_outputs(ctl, in1)
    [nodes |-> <<TNode([op |-> "TailLoop", just_inputs |-> <<BoolT>>, just_outputs |-> <<>>, rest |-> <<QubitT>>, extension_delta |-> <<>>], 0),
                 TNode([op |-> "Input", types |-> <<BoolT, QubitT>>], 0),
                 TNode([op |-> "Output", types |-> <<GenSumT(<<<<BoolT>>, <<>>>>), QubitT>>], 0),
                 TNode([op |-> "Tag", tag |-> 0, variants |-> <<<<BoolT>>, <<>>>>], 0)>>,
     links |-> <<<<1, 0, 3, 0>>, <<3, 0, 2, 0>>, <<1, 1, 2, 1>>>>],
  cond |->     \* Conditional(Bool, [Bool]): both cases return their input
    [nodes |-> <<TNode([op |-> "Conditional", sum_rows |-> <<<<>>, <<>>>>, other_inputs |-> <<BoolT>>, outputs |-> <<BoolT>>, extension_delta |-> <<>>], 0),
                 TNode([op |-> "Case", signature |-> FnT(<<BoolT>>, <<BoolT>>)], 0), TNode([op |-> "Input", types |-> <<BoolT>>], 1),
                 TNode([op |-> "Output", types |-> <<BoolT>>], 1),
                 TNode([op |-> "Case", signature |-> FnT(<<BoolT>>, <<BoolT>>)], 0), TNode([op |-> "Input", types |-> <<BoolT>>], 4),
                 TNode([op |-> "Output", types |-> <<BoolT>>], 4)>>,
     links |-> <<<<2, 0, 3, 0>>, <<5, 0, 6, 0>>>>],
  cfg |->      \* Cfg(Bool): the entry block branches on its input, both successors are the exit
    [nodes |-> <<TNode([op |-> "CFG", signature |-> FnT(<<BoolT>>, <<>>)], 0),
                 TNode([op |-> "DataflowBlock", inputs |-> <<BoolT>>, other_outputs |-> <<>>, sum_rows |-> <<<<>>, <<>>>>, extension_delta |-> <<>>], 0),
                 TNode([op |-> "Input", types |-> <<BoolT>>], 1), TNode([op |-> "Output", types |-> <<BoolT>>], 1),
                 TNode([op |-> "ExitBlock", cfg_outputs |-> <<>>], 0)>>,
     links |-> <<<<2, 0, 3, 0>>, <<1, 0, 4, 0>>, <<1, 1, 4, 0>>>>]]
Insert(k, name, args) ==
  LET c == ctxs[k].node n == NNodes T == Templates[name]
      tn == [j \in 1..Len(T.nodes) |-> [op |-> T.nodes[j].op, parent |-> IF j = 1 THEN c ELSE T.nodes[j].parent + n, ins |-> TRUE]]   \* ins: no builder object exists for a copied node
      tl == [j \in 1..Len(T.links) |-> <<T.links[j][1] + n, T.links[j][2], T.links[j][3] + n, T.links[j][4]>>] IN
  /\ calls < MaxCalls
  /\ nodes' = nodes \o tn
  /\ links' = WireUp(links \o tl, n, c, args, 1)
  /\ done' = done \cup {n + j - 1 : j \in 1..Len(T.nodes)} /\ used' = used \cup LinearArgs(args)
  /\ calls' = calls + 1 /\ UNCHANGED <<ctxs, pending>>
  /\ hist' = Append(hist, [a |-> "Insert", ctx |-> c, t |-> name, args |-> args])
(* add_case(i) / add_entry(): start building one of the cases, or the entry block *)
AddCase(p) ==
  /\ calls < MaxCalls /\ p \in pending /\ Len(ctxs) < MaxDepth + 1
  /\ NodePar(p.cond) = ctxs[Len(ctxs)].node                       \* the conditional lives in the innermost open region
  /\ ctxs' = Append(ctxs, p) /\ pending' = pending \ {p} /\ calls' = calls + 1
  /\ UNCHANGED <<nodes, links, done, used>>
  /\ hist' = Append(hist, IF p.kind = "block" THEN [a |-> "AddEntry", ctx |-> p.cond] ELSE [a |-> "AddCase", ctx |-> p.cond, i |-> (p.node - p.cond - 1) \div 3])
(* set_outputs(args...) of the innermost open context: wires the Output node, completes Output and the container op;
   for a case also the Conditional: the first case fixes its outputs, every later one must produce the same row *)
SetOutputs(args) ==
  LET k == Len(ctxs) cx == ctxs[k] c == cx.node out == cx.out
      row == [i \in 1..Len(args) |-> WireType(args[i])]
      leftover == {w \in RegionWires(c) : Linear(WireType(w)) /\ w \notin used}
      isCase == cx.kind = "case"
      isLoop == cx.kind = "loop"
      isFunc == cx.kind \in {"func", "funcd"}
      isBlock == cx.kind = "block"
      ctl == SumRows(row[1])                                        \* loop only: the rows of the controlling sum
      condOuts == IF isCase THEN NodeOp(cx.cond).outputs ELSE <<>>
      firstCase == isCase /\ (\A q \in 0..(NNodes - 1) : (NodePar(q) = cx.cond) => q \notin done)
      siblingsOpen == {p \in pending : p.kind = "case" /\ p.cond = cx.cond}
      condDone == isCase /\ siblingsOpen = {} /\ \A q \in 0..(NNodes - 1) : (NodePar(q) = cx.cond /\ q # c) => q \in done IN
  /\ calls < MaxCalls
  /\ Distinct(args)
  /\ leftover \subseteq LinearArgs(args)                           \* every linear value of the region is consumed
  /\ \A g \in Cfgs : NodePar(g) = c => CfgComplete(g) /\ DomUsesOK(g)      \* every CFG of this region is complete, Dom wires dominate
  /\ isBlock => Len(args) >= 1 /\ IsSumT(row[1]) /\ Len(SumRows(row[1])) >= 1
  /\ (cx.kind = "funcd") => NormRow(row) = NormRow(NodeOp(c).signature.body.output)     \* declared outputs are matched
  /\ isLoop => /\ Len(args) >= 1 /\ IsSumT(row[1]) /\ Len(ctl) = 2
               /\ NormRow(ctl[1]) = NormRow(NodeOp(c).just_inputs)          \* continue variant = just_inputs
               /\ NormRow(Tail(row)) = NormRow(NodeOp(c).rest)               \* the remaining outputs are the rest row
  /\ \A p \in pending : NodePar(p.cond) # c                        \* no conditional of this region has unbuilt cases
  /\ (isCase /\ ~firstCase) => NormRow(row) = NormRow(condOuts)   \* cases agree on their outputs
  /\ nodes' = IF isCase
                THEN [nodes EXCEPT ![out + 1].op.types = row, ![c + 1].op.signature.output = row, ![cx.cond + 1].op.outputs = row]
                ELSE IF isLoop THEN [nodes EXCEPT ![out + 1].op.types = row, ![c + 1].op.just_outputs = ctl[2]]
                ELSE IF isBlock THEN [nodes EXCEPT ![out + 1].op.types = row, ![c + 1].op.sum_rows = SumRows(row[1]), ![c + 1].op.other_outputs = Tail(row)]
                ELSE IF isFunc THEN [nodes EXCEPT ![out + 1].op.types = row, ![c + 1].op.signature.body.output = row]
                ELSE [nodes EXCEPT ![out + 1].op.types = row, ![c + 1].op.signature.output = row]
  /\ links' = WireUp(links, out, c, args, 1)
  /\ done' = done \cup {out, c} \cup (IF condDone THEN {cx.cond} ELSE {})
  /\ used' = used \cup LinearArgs(args)
  /\ ctxs' = SubSeq(ctxs, 1, k - 1) /\ calls' = calls + 1 /\ UNCHANGED pending
  /\ hist' = Append(hist, [a |-> "SetOutputs", ctx |-> c, args |-> args])

(* Arguments always range over Usable(container): well-formed programs only (see the header). WiresUpTo(U, m) = sequences of <= m wires *)
WiresUpTo(U, m) == UNION {[1..j -> U] : j \in 0..m}
Next ==
  /\ calls < MaxCalls /\ refused = "" /\ refused' = ""
  /\ \/ \E k \in 1..Len(ctxs), o \in {x \in Alphabet : x.name \in Ops} : \E args \in ArgsFor(ctxs[k].node, DfSig(o)[1]) : AddOp(k, o, args)
     \/ "load" \in Features /\ \E k \in 1..Len(ctxs) : Load(k, FALSE)
     \/ "unit" \in Features /\ \E k \in 1..Len(ctxs) : Load(k, TRUE)
     \/ "order" \in Features /\ \E k \in 1..Len(ctxs), a, b \in 0..(NNodes - 1) : AddStateOrder(k, a, b)
     \/ Len(ctxs) >= 1 /\ Len(ctxs) < MaxDepth /\
          LET k == Len(ctxs) U == Usable(ctxs[k].node) IN
          \/ "nested" \in Features /\ \E args \in WiresUpTo(U, MaxArgs) : AddNested(k, args)
          \/ "cond" \in Features /\ \E cw \in {w \in U : IsSumT(WireType(w))} : \E others \in WiresUpTo(U, 1) : AddConditional(k, cw, others)
          \/ "if" \in Features /\ \E cw \in {w \in U : IsSumT(WireType(w))} : \E others \in WiresUpTo(U, 1) : AddIf(k, cw, others)
          \/ "loop" \in Features /\ \E just \in WiresUpTo(U, 1) : \E rest \in WiresUpTo(U, MaxArgs) : AddTailLoop(k, just, rest)
     \/ \E p \in pending : AddCase(p)
     \/ "insert" \in Features /\ \E k \in 1..Len(ctxs), name \in DOMAIN Templates :
          \E args \in ArgsFor(ctxs[k].node, DfSig(Templates[name].nodes[1].op)[1]) : Insert(k, name, args)
     \/ "cfg" \in Features /\ Len(ctxs) >= 1 /\ Len(ctxs) < MaxDepth /\
          LET k == Len(ctxs) IN \E args \in WiresUpTo(Usable(ctxs[k].node), MaxArgs) : AddCfg(k, args)
     \/ "cfg" \in Features /\ Len(ctxs) >= 1 /\ Len(ctxs) < MaxDepth + 1 /\
          \E g \in {x \in Cfgs : Cardinality(BlocksOf(x)) < MaxBlocks} :
             \/ \E row \in CfgRows : AddBlock(g, row)
             \/ \E x \in FreeSucc(g) : AddSuccessor(g, x[1], x[2])
     \/ "cfg" \in Features /\ \E g \in Cfgs : \E x \in FreeSucc(g) :
             \/ BranchExit(g, x[1], x[2])
             \/ \E dst \in BlocksOf(g) : Branch(g, x[1], x[2], dst)
     \/ "func" \in Features /\ Len(ctxs) < MaxDepth /\ \E ins \in FuncRows : \E d \in BOOLEAN : \E outs \in (IF d THEN FuncRows ELSE {<<>>}) : DefineFunction(ins, d, outs)
     \/ "decl" \in Features /\ \E poly \in BOOLEAN : DeclareFunction(poly)
     \/ "decl" \in Features /\ \E k \in 1..Len(ctxs), f \in {x \in Funcs : x \in done /\ IsPoly(x)} :
          \E args \in WiresUpTo(Usable(ctxs[k].node), 2) : CallPoly(k, f, args)
     \/ "func" \in Features /\ \E k \in 1..Len(ctxs), f \in Callable : \/ \E args \in ArgsFor(ctxs[k].node, NodeOp(f).signature.body.input) : CallF(k, f, args)
                                                                      \/ LoadF(k, f)
     \/ Len(ctxs) >= 1 /\ ctxs[Len(ctxs)].kind # "loop" /\ \E args \in WiresUpTo(Usable(ctxs[Len(ctxs)].node), MaxArgs) : SetOutputs(args)
     \/ Len(ctxs) >= 1 /\ ctxs[Len(ctxs)].kind = "loop" /\
          LET c == ctxs[Len(ctxs)].node IN
          \E s \in {w \in Usable(c) : IsSumT(WireType(w))} : \E r \in ArgsFor(c, NodeOp(c).rest) : SetOutputs(<<s>> \o r)
(* ---- inconsistent calls (C13): exactly one, anywhere in a well-formed program; the builder must raise the stated error ---- *)
AllWires == UNION {{<<n, o>> : o \in 0..(Len(OutRow(n)) - 1)} :
                     n \in {x \in 1..(NNodes - 1) : x \in done /\ NodeOp(x).op \notin {"Output", "Const", "Case", "FuncDefn", "FuncDecl", "DataflowBlock", "ExitBlock"}}}
IsBlockNode(c) == c # 0 /\ NodeOp(c).op = "DataflowBlock"
(* what `_wire_up_port` does with a wire whose source region is sp, for a new node placed in container c *)
WireVerdict(c, w) ==
  LET sp == NodePar(w[1]) IN
  IF sp \in ValueAncB(c) THEN "ok"
  ELSE IF IsBlockNode(c)
       THEN LET g == NodePar(c) IN
            IF sp # 0 /\ g \in AncestorsB(sp) THEN (IF NodePar(sp) = g THEN "ok" ELSE "NoSiblingAncestor")    \* Dom wire, or nested below a block
            ELSE "NotInSameCfg"
       ELSE "NoSiblingAncestor"
BadWires(c) == {w \in AllWires : WireVerdict(c, w) # "ok" /\ w[1] \notin AncestorsB(c)}
Refuse(ev, cls) == /\ hist' = Append(hist, ev) /\ refused' = cls /\ calls' = calls + 1
                   /\ UNCHANGED <<nodes, links, ctxs, pending, done, used>>
Bad_Wire(k, o, w) ==             \* add_op of a one-input operation whose argument comes from a region that is not visible
  LET c == ctxs[k].node IN
  /\ Len(DfSig(o)[1]) = 1 /\ NormT(WireType(w)) = NormT(DfSig(o)[1][1]) /\ w \in BadWires(c)
  /\ Refuse([a |-> "AddOp", ctx |-> c, op |-> o.name, args |-> <<w>>], WireVerdict(c, w))
Bad_OutputWire(w) ==             \* set_outputs with such a wire
  LET c == ctxs[Len(ctxs)].node IN
  /\ ctxs[Len(ctxs)].kind \in {"dfg", "case", "func"} /\ w \in BadWires(c)
  /\ Refuse([a |-> "SetOutputs", ctx |-> c, args |-> <<w>>], WireVerdict(c, w))
Conds == {n \in 0..(NNodes - 1) : NodeOp(n).op = "Conditional" /\ ~Inserted(n)}
OpenRegions == {ctxs[j].node : j \in 1..Len(ctxs)}
Bad_CaseDisagree(args) ==        \* a later case returns another row than the first finished one
  LET cx == ctxs[Len(ctxs)] c == cx.node row == [i \in 1..Len(args) |-> WireType(args[i])] IN
  /\ cx.kind = "case" /\ (\E q \in 0..(NNodes - 1) : NodePar(q) = cx.cond /\ q \in done)
  /\ Distinct(args) /\ NormRow(row) # NormRow(NodeOp(cx.cond).outputs)
  /\ Refuse([a |-> "SetOutputs", ctx |-> c, args |-> args], "ConditionalError")
Bad_CaseIndex(g, i) ==           \* add_case of a case that was already started, or of an index out of range
  /\ NodePar(g) \in OpenRegions /\ (i \in {-1, 2} \/ CaseCtx(g, i + 1) \notin pending)
  /\ Refuse([a |-> "AddCase", ctx |-> g, i |-> i], "ConditionalError")
Bad_CondExit(g) ==               \* leaving the conditional's context with unbuilt cases
  /\ NodePar(g) \in OpenRegions /\ (\E p \in pending : p.kind = "case" /\ p.cond = g)
  /\ Refuse([a |-> "ExitConditional", ctx |-> g], "ConditionalError")
Bad_ExitMismatch(g, b, i) ==     \* an exit branch carrying another row than the established one
  /\ <<b, i>> \in FreeSucc(g) /\ ExitOf(g) \in done /\ NormRow(SuccOutputs(NodeOp(b), i)) # NormRow(NodeOp(ExitOf(g)).cfg_outputs)
  /\ Refuse([a |-> "BranchExit", ctx |-> g, b |-> b, i |-> i], "MismatchedExit")
Bad_FuncOutputs(args) ==         \* outputs other than the declared ones
  LET cx == ctxs[Len(ctxs)] c == cx.node row == [i \in 1..Len(args) |-> WireType(args[i])] IN
  /\ cx.kind = "funcd" /\ Distinct(args) /\ NormRow(row) # NormRow(NodeOp(c).signature.body.output)
  /\ Refuse([a |-> "SetOutputs", ctx |-> c, args |-> args], "ValueError")
Bad_Serialize ==                 \* serializing while some operation is still incomplete
  /\ (\E n \in 0..(NNodes - 1) : n \notin done)
  /\ Refuse([a |-> "Serialize", ctx |-> 0], "IncompleteOp")
BadNext ==
  /\ "refuse" \in Features /\ calls < MaxCalls /\ refused = ""
  /\ \/ \E k \in 1..Len(ctxs), o \in {x \in Alphabet : x.name \in Ops} : \E w \in BadWires(ctxs[k].node) : Bad_Wire(k, o, w)
     \/ Len(ctxs) >= 1 /\ \E w \in BadWires(ctxs[Len(ctxs)].node) : Bad_OutputWire(w)
     \/ Len(ctxs) >= 1 /\ \E args \in WiresUpTo(Usable(ctxs[Len(ctxs)].node), 2) : Bad_CaseDisagree(args) \/ Bad_FuncOutputs(args)
     \/ \E g \in Conds : (\E i \in -1..2 : Bad_CaseIndex(g, i)) \/ Bad_CondExit(g)
     \/ \E g \in Cfgs : \E x \in FreeSucc(g) : Bad_ExitMismatch(g, x[1], x[2])
     \/ Bad_Serialize
Spec == Init /\ [][Next \/ BadNext]_bvars
(* bounded exploration only: a program that can no longer be finished within MaxCalls calls (every open context needs its
   set_outputs, every unbuilt case an add_case and a set_outputs) is not extended; no finished program of <= MaxCalls calls is lost *)
OpenBlocks == {j \in 1..Len(ctxs) : ctxs[j].kind = "block"}
CanFinish == calls + Len(ctxs) + 2 * Cardinality({p \in pending : p.kind = "case"}) + 3 * Cardinality({p \in pending : p.kind = "block"})
                   + Cardinality(OpenBlocks)                                  \* an open block will have >= 1 successor to link
                   + Cardinality(UNION {FreeSucc(g) : g \in Cfgs}) <= MaxCalls
NextB == (Next /\ (CanFinish' \/ "refuse" \in Features)) \/ BadNext      \* (an inconsistent call may come at any point of a program, finishable in budget or not)

(* ---- the document a finished program serializes to ---- *)
Finished == ctxs = <<>> /\ pending = {} /\ refused = ""
(* C01 for this fragment *)
FinishedValid == Finished => (User(Doc) /\ Builder(Doc))
(* every handle's output count (C16 b): the number of value outputs of the node's completed operation *)
HandleCounts == [n \in done |-> NumOut(NodeOp(n))]
=============================================================================
