--------------------------- MODULE MC_ExtensionDefs ---------------------------
EXTENDS ExtensionDefs, Json
VARIABLE hist
TD(n, d, ps, bs) == [name |-> n, description |-> d, params |-> ps, bspec |-> bs]
OD(n, d, m, sg, b) == [name |-> n, description |-> d, misc |-> m, sig |-> sg, binary |-> b]
Sig(ps, i, o, rs) == [params |-> ps, body |-> [t |-> "G", input |-> i, output |-> o, runtime_reqs |-> rs]]
PoolT == {TD("T1", "t1 dësc", <<ParamType("A")>>, FromParams(<<0>>)), TD("T2", "", <<>>, Explicit("C")),
          TD("T3", "nat", <<ParamNat(-1), ParamType("C")>>, Explicit("A"))}
PoolO == {OD("o1", "o1", "none", Sig(<<>>, <<QubitT>>, <<QubitT>>, {}), FALSE),
          OD("o2", "", "m1", Sig(<<ParamType("A")>>, <<Var(0, "A")>>, <<OpaqueT("verif.ext", "T1", <<TyArg(Var(0, "A"))>>, "A")>>, {"other.ext"}), FALSE),
          OD("o3", "binary computed", "none", NoSig, TRUE),
          OD("o4", "both", "none", Sig(<<ParamNat(7)>>, <<>>, <<BoolT>>, {"verif.ext"}), TRUE)}
PoolV == {[name |-> "v", val |-> [v |-> "Sum", tag |-> 1, typ |-> UnitSumT(2), vs |-> <<>>]]}
MCInit == Init /\ hist = <<>>
MCNext == \/ \E d \in TypeDefs : d.name \notin DOMAIN ext.types /\ AddTypeDef(d) /\ hist' = Append(hist, [a |-> "AddTypeDef", d |-> d])
          \/ \E d \in OpDefs : d.name \notin DOMAIN ext.ops /\ AddOpDef(d) /\ hist' = Append(hist, [a |-> "AddOpDef", d |-> d])
          \/ \E v \in Values : v.name \notin DOMAIN ext.values /\ AddValue(v) /\ hist' = Append(hist, [a |-> "AddValue", d |-> v])
View == ext
(* JSON-friendly rendering: sets of requirement names as sets (-> arrays), functions name -> def as sets of defs *)
SigJ(s) == IF Has(s, "none") THEN s ELSE s
ExtJ(e) == [name |-> e.name, version |-> e.version, reqs |-> e.reqs,
            types |-> {e.types[n] : n \in DOMAIN e.types}, ops |-> {e.ops[n] : n \in DOMAIN e.ops}, values |-> {e.values[n] : n \in DOMAIN e.values}]
Emit == PrintT(ToJson([hist |-> hist', ext |-> ExtJ(ext')]))
=============================================================================
