--------------------------- MODULE MC_ExtensionDefs ---------------------------
EXTENDS ExtensionDefs, Json
VARIABLE hist
TD(n, d, ps, bs) == [name |-> n, description |-> d, params |-> ps, bspec |-> bs]
OD(n, d, m, sg, b) == [name |-> n, description |-> d, misc |-> m, sig |-> sg, binary |-> b]
Sig(ps, i, o, rs) == [params |-> ps, body |-> [t |-> "G", input |-> i, output |-> o, runtime_reqs |-> rs]]
PoolT == {TD("T1", "t1 dësc", <<ParamType("A")>>, FromParams(<<0>>)), TD("T2", "", <<>>, Explicit("C")),
          TD("T3", "nat", <<ParamNat(-1), ParamType("C")>>, Explicit("A")),
          TD("T4", "unordered indices", <<ParamType("A"), ParamType("A")>>, FromParams(<<1, 0>>)),       \* index lists are kept as written:
          TD("T5", "repeated index", <<ParamType("C"), ParamType("A")>>, FromParams(<<1, 1>>))}          \* neither sorted nor deduplicated
PoolO == {OD("o1", "o1", "none", Sig(<<>>, <<QubitT>>, <<QubitT>>, {}), FALSE),
          OD("o2", "", "m1", Sig(<<ParamType("A")>>, <<Var(0, "A")>>, <<OpaqueT("verif.ext", "T1", <<TyArg(Var(0, "A"))>>, "A")>>, {"other.ext"}), FALSE),
          OD("o3", "binary computed", "none", NoSig, TRUE),
          OD("o4", "both", "none", Sig(<<ParamNat(7)>>, <<>>, <<BoolT>>, {"verif.ext"}), TRUE)}
IntC == [v |-> "Extension", extensions |-> <<"arithmetic.int.types">>, typ |-> OpaqueT("arithmetic.int.types", "int", <<NatArg(5)>>, "C"),
         value |-> [c |-> "ConstInt", v |-> [log_width |-> 5, value |-> 3]]]                                      \* an extension constant names the extensions it uses
PoolV == {[name |-> "v", val |-> [v |-> "Sum", tag |-> 1, typ |-> UnitSumT(2), vs |-> <<>>]],
          [name |-> "vi", val |-> IntC],
          [name |-> "vu", val |-> [v |-> "Sum", tag |-> 0, typ |-> UnitSumT(1), vs |-> <<>>]],                  \* single-variant sums stay sums
          [name |-> "vs", val |-> [v |-> "Sum", tag |-> 0, typ |-> GenSumT(<<<<BoolT, BoolT>>>>),
                                  vs |-> <<[v |-> "Sum", tag |-> 1, typ |-> UnitSumT(2), vs |-> <<>>], [v |-> "Sum", tag |-> 0, typ |-> UnitSumT(2), vs |-> <<>>]>>]],
          [name |-> "vt", val |-> [v |-> "Tuple", vs |-> <<IntC, [v |-> "Sum", tag |-> 0, typ |-> UnitSumT(2), vs |-> <<>>]>>]]}
CONSTANT MaxAdds                 \* bound on the number of definitions added in one behaviour
Small == Len(hist) <= MaxAdds
MCInit == Init /\ hist = <<>>
MCNext == \/ \E d \in TypeDefs : d.name \notin DOMAIN ext.types /\ AddTypeDef(d) /\ hist' = Append(hist, [a |-> "AddTypeDef", d |-> d])
          \/ \E d \in OpDefs : d.name \notin DOMAIN ext.ops /\ AddOpDef(d) /\ hist' = Append(hist, [a |-> "AddOpDef", d |-> d])
          \/ \E v \in Values : v.name \notin DOMAIN ext.values /\ AddValue(v) /\ hist' = Append(hist, [a |-> "AddValue", d |-> v])
View == ext
(* JSON-friendly rendering: sets of requirement names as sets (-> arrays), functions name -> def as sets of defs *)
SigJ(s) == IF Has(s, "none") THEN s ELSE s
ExtJ(e) == [name |-> e.name, version |-> e.version, reqs |-> e.reqs,
            types |-> {e.types[n] : n \in DOMAIN e.types}, ops |-> {e.ops[n] : n \in DOMAIN e.ops}, values |-> {e.values[n] : n \in DOMAIN e.values}]
Emit == PrintT(ToJson([hist |-> hist', ext |-> ExtJ(ext')]))
=============================================================================
