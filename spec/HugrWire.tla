------------------------------ MODULE HugrWire ------------------------------
(* The HUGR data model in *wire vocabulary*: TLA+ records carry exactly the field names of the JSON wire
   format, so that the same operators apply to terms the specification enumerates and to documents read
   back from the implementation.

     types   [t |-> "Q"] [t |-> "I"] [t |-> "V", i, b] [t |-> "R", i, b] [t |-> "Alias", bound, name]
             [t |-> "G", input, output, runtime_reqs]
             [t |-> "Sum", s |-> "Unit", size]   [t |-> "Sum", s |-> "General", rows]
             [t |-> "Opaque", extension, id, args, bound]
     sugar   (object view only: what the Python helper classes denote; Desugar maps them to wire terms)
             [t |-> "Tuple", elems] [t |-> "Option", elems] [t |-> "Either", left, right]
             [t |-> "Ext", extension, id, args, bspec]   -- an extension type backed by a definition whose
                  bound is bspec = [b |-> "Explicit", bound] or [b |-> "FromParams", indices] (0-based)
     params  [tp |-> "Type", b] [tp |-> "BoundedNat", bound] (bound = -1: none) [tp |-> "String"]
             [tp |-> "List", param] [tp |-> "Tuple", params] [tp |-> "Extensions"]
     args    [tya |-> "Type", ty] [tya |-> "BoundedNat", n] [tya |-> "String", arg] [tya |-> "Sequence", elems]
             [tya |-> "Extensions", es] [tya |-> "Variable", idx, cached_decl]
     values  [v |-> "Sum", tag, typ, vs] [v |-> "Tuple", vs] [v |-> "Extension", extensions, typ, value]
             [v |-> "Function", hugr]     sugar: [v |-> "Some"|"None"|"Left"|"Right"|"UnitSum"|... ]
     ops     [op |-> "DFG", signature] ... (21 kinds; `parent` is added by the document level)

   Written from specification/hugr.md, hugr-core/src/types, ops/dataflow.rs, controlflow.rs, constant.rs. *)
EXTENDS Integers, Sequences, FiniteSets, TLC

Has(r, f) == f \in DOMAIN r
Range(s) == {s[i] : i \in 1..Len(s)}
RECURSIVE FlatSeq(_)
FlatSeq(ss) == IF Len(ss) = 0 THEN <<>> ELSE Head(ss) \o FlatSeq(Tail(ss))

-----------------------------------------------------------------------------
(* Bounds.  "C" = Copyable, "A" = Any (linear).  Join = least upper bound; the empty join is "C". *)
Join(S) == IF "A" \in S THEN "A" ELSE "C"

UnitSumT(n)  == [t |-> "Sum", s |-> "Unit", size |-> n]
GenSumT(rows) == [t |-> "Sum", s |-> "General", rows |-> rows]
BoolT == UnitSumT(2)
UnitT == UnitSumT(1)
QubitT == [t |-> "Q"]
USizeT == [t |-> "I"]
FnT(i, o) == [t |-> "G", input |-> i, output |-> o, runtime_reqs |-> <<>>]
FnTR(i, o, r) == [t |-> "G", input |-> i, output |-> o, runtime_reqs |-> r]
TupleT(elems) == [t |-> "Tuple", elems |-> elems]
OptionT(elems) == [t |-> "Option", elems |-> elems]
EitherT(l, r) == [t |-> "Either", left |-> l, right |-> r]
TyArg(ty) == [tya |-> "Type", ty |-> ty]
NatArg(n) == [tya |-> "BoundedNat", n |-> n]

IsSugarT(t) == t.t \in {"Tuple", "Option", "Either", "Ext"}

(* rows of a sum type in any view *)
SumRows(t) == CASE t.t = "Sum" /\ t.s = "Unit"    -> [i \in 1..t.size |-> <<>>]
                [] t.t = "Sum" /\ t.s = "General" -> t.rows
                [] t.t = "Tuple"  -> <<t.elems>>
                [] t.t = "Option" -> <<<<>>, t.elems>>
                [] t.t = "Either" -> <<t.left, t.right>>
                [] OTHER -> <<>>
IsSumT(t) == t.t \in {"Sum", "Tuple", "Option", "Either"}

RECURSIVE Bound(_)
ArgBounds(t) ==  \* bounds of the type arguments an "Ext" type's definition names
  {Bound(t.args[i + 1].ty) : i \in {j \in Range(t.bspec.indices) : j + 1 <= Len(t.args) /\ t.args[j + 1].tya = "Type"}}
Bound(t) ==
  CASE t.t = "Q" -> "A"
    [] t.t \in {"I", "G"} -> "C"
    [] t.t \in {"V", "R"} -> t.b
    [] t.t \in {"Opaque", "Alias"} -> t.bound
    [] IsSumT(t) -> Join({Bound(SumRows(t)[i][j]) : <<i, j>> \in {<<a, b>> \in (1..Len(SumRows(t))) \X (1..8) : b <= Len(SumRows(t)[a])}})
    [] t.t = "Ext" -> IF t.bspec.b = "Explicit" THEN t.bspec.bound ELSE Join(ArgBounds(t))

(* Independent characterisation used by the C07 law: the atomic constituents whose values make up a value
   of t.  A function value, a variable, an alias, an opaque type and a definition-backed type with an
   explicit bound are atoms; sums and from-params extension types are made of their constituents. *)
RECURSIVE Atoms(_)
Atoms(t) ==
  IF IsSumT(t) THEN UNION {Atoms(SumRows(t)[i][j]) : <<i, j>> \in {<<a, b>> \in (1..Len(SumRows(t))) \X (1..8) : b <= Len(SumRows(t)[a])}}
  ELSE IF t.t = "Ext" /\ t.bspec.b = "FromParams"
       THEN UNION {Atoms(t.args[i + 1].ty) : i \in {j \in Range(t.bspec.indices) : j + 1 <= Len(t.args) /\ t.args[j + 1].tya = "Type"}}
  ELSE {t}
AtomCopyable(a) == CASE a.t = "Q" -> FALSE
                     [] a.t \in {"I", "G"} -> TRUE
                     [] a.t \in {"V", "R"} -> a.b = "C"
                     [] a.t \in {"Opaque", "Alias"} -> a.bound = "C"
                     [] a.t = "Ext" -> a.bspec.bound = "C"
                     [] OTHER -> FALSE
CopyableIffAtoms(t) == (Bound(t) = "C") <=> (\A a \in Atoms(t) : AtomCopyable(a))

-----------------------------------------------------------------------------
(* Desugar: object view -> wire view (what serialization must produce). *)
RECURSIVE Desugar(_), DesugarArg(_)
DesugarRow(row) == [i \in 1..Len(row) |-> Desugar(row[i])]
DesugarArg(a) == CASE a.tya = "Type" -> [tya |-> "Type", ty |-> Desugar(a.ty)]
                   [] a.tya = "Sequence" -> [tya |-> "Sequence", elems |-> [i \in 1..Len(a.elems) |-> DesugarArg(a.elems[i])]]
                   [] OTHER -> a
Desugar(t) ==
  CASE t.t = "Sum" /\ t.s = "General" -> GenSumT([i \in 1..Len(t.rows) |-> DesugarRow(t.rows[i])])
    [] t.t = "Tuple"  -> GenSumT(<<DesugarRow(t.elems)>>)
    [] t.t = "Option" -> GenSumT(<<<<>>, DesugarRow(t.elems)>>)
    [] t.t = "Either" -> GenSumT(<<DesugarRow(t.left), DesugarRow(t.right)>>)
    [] t.t = "G" -> [t |-> "G", input |-> DesugarRow(t.input), output |-> DesugarRow(t.output), runtime_reqs |-> t.runtime_reqs]
    [] t.t = "Opaque" -> [t EXCEPT !.args = [i \in 1..Len(t.args) |-> DesugarArg(t.args[i])]]
    [] t.t = "Ext" -> [t |-> "Opaque", extension |-> t.extension, id |-> t.id,
                       args |-> [i \in 1..Len(t.args) |-> DesugarArg(t.args[i])], bound |-> Bound(t)]
    [] OTHER -> t

(* NormT: identify the two spellings of a sum of empty rows (validity compares types up to this) *)
RECURSIVE NormT(_)
NormRow(row) == [j \in 1..Len(row) |-> NormT(row[j])]
NormArg(a) == IF a.tya = "Type" THEN [tya |-> "Type", ty |-> NormT(a.ty)] ELSE a
NormT(t) ==
  CASE t.t = "Sum" /\ t.s = "Unit" -> [t |-> "Sum", rows |-> [j \in 1..t.size |-> <<>>]]
    [] t.t = "Sum" /\ t.s = "General" -> [t |-> "Sum", rows |-> [j \in 1..Len(t.rows) |-> NormRow(t.rows[j])]]
    [] t.t = "G" -> [t |-> "G", input |-> NormRow(t.input), output |-> NormRow(t.output)]
    [] t.t = "Opaque" -> [t |-> "Opaque", extension |-> t.extension, id |-> t.id, bound |-> t.bound,
                          args |-> [j \in 1..Len(t.args) |-> NormArg(t.args[j])]]
    [] OTHER -> t
SumT(rows) == [t |-> "Sum", rows |-> rows]              \* a sum in normal form
SameT(a, b) == NormT(Desugar(a)) = NormT(Desugar(b))

-----------------------------------------------------------------------------
(* Operations.  Signatures are pairs <<inputs, outputs>> of rows in the vocabulary of the op's own fields. *)
Rows(rs) == [j \in 1..Len(rs) |-> rs[j]]
IsDf(op) == op.op \in {"Input", "Output", "DFG", "CFG", "Extension", "CallIndirect", "Call", "LoadFunction",
                       "LoadConstant", "Conditional", "TailLoop", "Tag"}
(* outer (node-level) dataflow signature *)
DfSig(op) ==
  CASE op.op = "Input"  -> <<<<>>, op.types>>
    [] op.op = "Output" -> <<op.types, <<>>>>
    [] op.op \in {"DFG", "CFG", "Extension"} -> <<op.signature.input, op.signature.output>>
    [] op.op = "CallIndirect" -> <<<<op.signature>> \o op.signature.input, op.signature.output>>
    [] op.op = "Call" -> <<op.instantiation.input, op.instantiation.output>>
    [] op.op = "LoadFunction" -> <<<<>>, <<op.instantiation>>>>
    [] op.op = "LoadConstant" -> <<<<>>, <<op.datatype>>>>
    [] op.op = "Conditional" -> <<<<GenSumT(op.sum_rows)>> \o op.other_inputs, op.outputs>>
    [] op.op = "TailLoop" -> <<op.just_inputs \o op.rest, op.just_outputs \o op.rest>>
    [] op.op = "Tag" -> <<op.variants[op.tag + 1], <<GenSumT(op.variants)>>>>
    [] OTHER -> <<<<>>, <<>>>>
HasInner(op) == op.op \in {"DFG", "Case", "FuncDefn", "TailLoop", "DataflowBlock"}
(* signature of the child dataflow graph of a container *)
InnerSig(op) ==
  CASE op.op \in {"DFG", "Case"} -> <<op.signature.input, op.signature.output>>
    [] op.op = "FuncDefn" -> <<op.signature.body.input, op.signature.body.output>>
    [] op.op = "TailLoop" -> <<op.just_inputs \o op.rest, <<GenSumT(<<op.just_inputs, op.just_outputs>>)>> \o op.rest>>
    [] op.op = "DataflowBlock" -> <<op.inputs, <<GenSumT(op.sum_rows)>> \o op.other_outputs>>
    [] OTHER -> <<<<>>, <<>>>>
CaseInputs(op, i)   == op.sum_rows[i + 1] \o op.other_inputs        \* Conditional: what case i receives
SuccOutputs(op, i)  == op.sum_rows[i + 1] \o op.other_outputs       \* DataflowBlock: what successor i receives

NVal(op, dir) == IF IsDf(op) THEN Len(DfSig(op)[IF dir = "in" THEN 1 ELSE 2]) ELSE 0
StaticKind(op, dir) ==
  CASE dir = "in"  /\ op.op \in {"Call", "LoadFunction"} -> "Function"
    [] dir = "in"  /\ op.op = "LoadConstant" -> "Const"
    [] dir = "out" /\ op.op \in {"FuncDefn", "FuncDecl"} -> "Function"
    [] dir = "out" /\ op.op = "Const" -> "Const"
    [] OTHER -> "none"
NStatic(op, dir) == IF StaticKind(op, dir) # "none" THEN 1 ELSE 0
HasOrder(op, dir) == IsDf(op) /\ ~(op.op = "Input" /\ dir = "in") /\ ~(op.op = "Output" /\ dir = "out")
NOther(op, dir) == CASE op.op = "DataflowBlock" -> IF dir = "in" THEN 1 ELSE Len(op.sum_rows)
                     [] op.op = "ExitBlock" -> IF dir = "in" THEN 1 ELSE 0
                     [] OTHER -> IF HasOrder(op, dir) THEN 1 ELSE 0
PortCount(op, dir) == NVal(op, dir) + NStatic(op, dir) + NOther(op, dir)
(* wire offset of the state-order port = first port after the value ports and the static port *)
OrderOffset(op, dir) == NVal(op, dir) + NStatic(op, dir)
FuncPortOffset(op) == NVal(op, "in")                                   \* Call / LoadFunction / LoadConstant static input
(* number of value outputs a node handle enumerates; static outputs (Const, FuncDefn, FuncDecl) count 1 in the API *)
NumOut(op) == CASE op.op \in {"Const", "FuncDefn", "FuncDecl"} -> 1
                [] op.op = "DataflowBlock" -> Len(op.sum_rows)
                [] OTHER -> NVal(op, "out")

(* kind of the port at wire offset `off`: <<"Value", type>>, <<"Const", type>>, <<"Function", polytype>>, <<"CF">>, <<"Order">> *)
(* type of a value in wire form *)
RECURSIVE WireTypeOf(_)
WireTypeOf(v) == CASE v.v = "Sum" -> v.typ
                   [] v.v = "Tuple" -> GenSumT(<<[i \in 1..Len(v.vs) |-> WireTypeOf(v.vs[i])]>>)
                   [] v.v = "Extension" -> v.typ
                   [] v.v = "Function" -> FnT(InnerSig(v.hugr.nodes[1])[1], InnerSig(v.hugr.nodes[1])[2])
StaticType(op) ==
  CASE op.op \in {"Call", "LoadFunction"} -> op.func_sig
    [] op.op = "Const" -> WireTypeOf(op.v)
    [] op.op = "LoadConstant" -> op.datatype
    [] op.op \in {"FuncDefn", "FuncDecl"} -> op.signature
    [] OTHER -> [none |-> TRUE]
PortKind(op, dir, off) ==
  IF off < NVal(op, dir) THEN <<"Value", DfSig(op)[IF dir = "in" THEN 1 ELSE 2][off + 1]>>
  ELSE IF off = NVal(op, dir) /\ StaticKind(op, dir) # "none" THEN <<StaticKind(op, dir)>>
  ELSE IF op.op \in {"DataflowBlock", "ExitBlock"} THEN <<"CF">>
  ELSE <<"Order">>

-----------------------------------------------------------------------------
(* Values.  TypeOf gives the type in the *object view* (sugar allowed); Inhabits is the check of
   hugr-core/src/ops/constant.rs on the wire form. *)
RECURSIVE TypeOf(_)
TypesOf(vs) == [i \in 1..Len(vs) |-> TypeOf(vs[i])]
TypeOf(v) ==
  CASE v.v = "Sum" -> v.typ
    [] v.v = "Tuple" -> TupleT(TypesOf(v.vs))
    [] v.v = "Extension" -> v.typ
    [] v.v = "Function" -> v.sig                 \* signature of the body (a "G" type), carried by the term
    [] v.v = "UnitSum" -> UnitSumT(v.size)
    [] v.v = "Some" -> OptionT(TypesOf(v.vs))
    [] v.v = "None" -> OptionT(v.tys)
    [] v.v = "Left" -> EitherT(TypesOf(v.vs), v.tys)
    [] v.v = "Right" -> EitherT(v.tys, TypesOf(v.vs))
TagOf(v) == CASE v.v = "Sum" -> v.tag [] v.v = "UnitSum" -> v.tag [] v.v \in {"Some", "Right"} -> 1 [] OTHER -> 0
FieldsOf(v) == IF v.v \in {"None", "UnitSum", "Extension", "Function"} THEN <<>> ELSE v.vs

(* a sum value inhabits its type: tag in range, as many fields as the tagged row, each field of the row's type *)
RECURSIVE Inhabits(_)
Inhabits(v) ==
  IF v.v \in {"Extension", "Function"} THEN TRUE
  ELSE LET rows == SumRows(TypeOf(v)) tag == TagOf(v) fs == FieldsOf(v) IN
       /\ tag >= 0 /\ tag < Len(rows)
       /\ Len(fs) = Len(rows[tag + 1])
       /\ \A i \in 1..Len(fs) : SameT(TypeOf(fs[i]), rows[tag + 1][i]) /\ Inhabits(fs[i])

(* wire encoding of a value *)
RECURSIVE EncVal(_)
EncVals(vs) == [i \in 1..Len(vs) |-> EncVal(vs[i])]
SumTypeWire(t) == Desugar(t)                       \* {"t":"Sum","s":...}
EncVal(v) ==
  CASE v.v = "Tuple" -> [v |-> "Tuple", vs |-> EncVals(v.vs)]
    [] v.v = "Extension" -> [v |-> "Extension", extensions |-> v.extensions, typ |-> Desugar(v.typ), value |-> v.value]
    [] v.v = "Function" -> v
    [] OTHER -> [v |-> "Sum", tag |-> TagOf(v), typ |-> SumTypeWire(TypeOf(v)), vs |-> EncVals(FieldsOf(v))]

-----------------------------------------------------------------------------
(* Extension resolution on the object view: an Opaque type whose (extension, id) is in the registry becomes
   definition-backed ("Ext"), at every depth; nothing else changes.  reg is a function
   <<extension, id>> -> bspec (the definition's bound specification). *)
RECURSIVE Resolve(_, _), ResolveArg(_, _)
ResolveRow(row, reg) == [i \in 1..Len(row) |-> Resolve(row[i], reg)]
ResolveArg(a, reg) == CASE a.tya = "Type" -> [tya |-> "Type", ty |-> Resolve(a.ty, reg)]
                        [] a.tya = "Sequence" -> [tya |-> "Sequence", elems |-> [i \in 1..Len(a.elems) |-> ResolveArg(a.elems[i], reg)]]
                        [] OTHER -> a
Resolve(t, reg) ==
  CASE t.t = "Sum" /\ t.s = "General" -> GenSumT([i \in 1..Len(t.rows) |-> ResolveRow(t.rows[i], reg)])
    [] t.t = "Tuple"  -> TupleT(ResolveRow(t.elems, reg))
    [] t.t = "Option" -> OptionT(ResolveRow(t.elems, reg))
    [] t.t = "Either" -> EitherT(ResolveRow(t.left, reg), ResolveRow(t.right, reg))
    [] t.t = "G" -> [t |-> "G", input |-> ResolveRow(t.input, reg), output |-> ResolveRow(t.output, reg), runtime_reqs |-> t.runtime_reqs]
    [] t.t = "Opaque" ->
         LET args == [i \in 1..Len(t.args) |-> ResolveArg(t.args[i], reg)] IN
         IF <<t.extension, t.id>> \in DOMAIN reg
         THEN [t |-> "Ext", extension |-> t.extension, id |-> t.id, args |-> args, bspec |-> reg[<<t.extension, t.id>>], declared |-> t.bound]
         ELSE [t EXCEPT !.args = args]
    [] t.t = "Ext" -> [t EXCEPT !.args = [i \in 1..Len(t.args) |-> ResolveArg(t.args[i], reg)]]
    [] OTHER -> t
(* where in a term (as a path-insensitive count) opaque / resolved types occur *)
RECURSIVE CountKind(_, _), CountKindArg(_, _)
CountRow(row, k) == LET RECURSIVE S(_) S(i) == IF i > Len(row) THEN 0 ELSE CountKind(row[i], k) + S(i + 1) IN S(1)
CountKindArg(a, k) == CASE a.tya = "Type" -> CountKind(a.ty, k)
                        [] a.tya = "Sequence" -> LET RECURSIVE S(_) S(i) == IF i > Len(a.elems) THEN 0 ELSE CountKindArg(a.elems[i], k) + S(i + 1) IN S(1)
                        [] OTHER -> 0
CountArgs(args, k) == LET RECURSIVE S(_) S(i) == IF i > Len(args) THEN 0 ELSE CountKindArg(args[i], k) + S(i + 1) IN S(1)
CountKind(t, k) ==
  (IF t.t = k THEN 1 ELSE 0) +
  (CASE IsSumT(t) -> LET rows == SumRows(t) RECURSIVE S(_) S(i) == IF i > Len(rows) THEN 0 ELSE CountRow(rows[i], k) + S(i + 1) IN S(1)
     [] t.t = "G" -> CountRow(t.input, k) + CountRow(t.output, k)
     [] t.t \in {"Opaque", "Ext"} -> CountArgs(t.args, k)
     [] OTHER -> 0)
=============================================================================
