---------------------------- MODULE HugrValidity ----------------------------
(* Validity of a HUGR given as a raw wire document d = [nodes |-> <<op records with `parent`>>, edges |-> <<...>>]
   (exactly the JSON the implementation writes; node k is d.nodes[k + 1]; an edge is
   <<<<src node, src offset>>, <<dst node, dst offset>>>>, NullOff = -1 for a missing offset).

   Transcribed from specification/hugr.md (Hierarchical relationships, Edge locality, Dataflow / Control flow)
   and hugr-core/src/hugr/validate.rs, ops/validate.rs.  The rules are split by who owes them:
     Builder(d) -- what the builders promise for any program (structure, port counts, kinds and types at both
                   ends of every edge, order edges for Ext wires, no value edge into a function body, ...)
     User(d)    -- what a well-formed program owes (every input wired once, linear values used once,
                   acyclicity, dominance, copyability of non-local wires)
   Valid(d) == Builder(d) /\ User(d) is what `hugr validate` accepts.  C01 is  User(d) => Builder(d). *)
EXTENDS HugrWire

N(d) == Len(d.nodes)
Op(d, n) == d.nodes[n + 1]
Par(d, n) == d.nodes[n + 1].parent
NodeIds(d) == 0..(N(d) - 1)
Children(d, p) == SelectSeq([k \in 1..N(d) |-> k - 1], LAMBDA c : c # 0 /\ Par(d, c) = p)
Edges(d) == 1..Len(d.edges)
Src(d, e) == d.edges[e][1]
Dst(d, e) == d.edges[e][2]
NRow(r) == NormRow(r)

(* ---------------------------------------------------------------- index sanity (also C03) *)
IndexSane(d) ==
  /\ N(d) >= 1 /\ Par(d, 0) = 0
  /\ \A n \in 1..(N(d) - 1) : Par(d, n) >= 0 /\ Par(d, n) < n
  /\ \A e \in Edges(d) : Src(d, e)[1] \in NodeIds(d) /\ Dst(d, e)[1] \in NodeIds(d)

(* ---------------------------------------------------------------- hierarchy *)
ModuleOps == {"FuncDefn", "FuncDecl", "Const", "AliasDefn", "AliasDecl"}
AllowedChild(pop, cop) ==
  CASE pop.op = "Module" -> cop.op \in ModuleOps
    [] pop.op \in {"DFG", "FuncDefn", "Case", "TailLoop", "DataflowBlock"} -> IsDf(cop) \/ cop.op \in ModuleOps
    [] pop.op = "CFG" -> cop.op \in {"DataflowBlock", "ExitBlock"}
    [] pop.op = "Conditional" -> cop.op = "Case"
    [] OTHER -> FALSE
ChildrenOK(d) == \A p \in NodeIds(d) :
  LET ch == Children(d, p) pop == Op(d, p) IN
  /\ \A k \in 1..Len(ch) : AllowedChild(pop, Op(d, ch[k]))
  /\ HasInner(pop) =>
       /\ Len(ch) >= 2 /\ Op(d, ch[1]).op = "Input" /\ Op(d, ch[2]).op = "Output"
       /\ NRow(DfSig(Op(d, ch[1]))[2]) = NRow(InnerSig(pop)[1])
       /\ NRow(DfSig(Op(d, ch[2]))[1]) = NRow(InnerSig(pop)[2])
       /\ \A k \in 3..Len(ch) : Op(d, ch[k]).op \notin {"Input", "Output"}
  /\ pop.op = "CFG" =>
       /\ Len(ch) >= 2 /\ Op(d, ch[1]).op = "DataflowBlock" /\ Op(d, ch[2]).op = "ExitBlock"
       /\ NRow(Op(d, ch[1]).inputs) = NRow(pop.signature.input)
       /\ NRow(Op(d, ch[2]).cfg_outputs) = NRow(pop.signature.output)
       /\ \A k \in 3..Len(ch) : Op(d, ch[k]).op # "ExitBlock"
  /\ pop.op = "Conditional" =>
       /\ Len(ch) = Len(pop.sum_rows)
       /\ \A k \in 1..Len(ch) :
            /\ NRow(InnerSig(Op(d, ch[k]))[1]) = NRow(CaseInputs(pop, k - 1))
            /\ NRow(InnerSig(Op(d, ch[k]))[2]) = NRow(pop.outputs)
  /\ (~HasInner(pop) /\ pop.op \notin {"Module", "CFG", "Conditional"}) => Len(ch) = 0

(* ---------------------------------------------------------------- edges: ports, kinds, types *)
NormPoly(p) == [params |-> p.params, body |-> NormT(p.body)]
KindAt(d, n, dir, off) == PortKind(Op(d, n), dir, off)
EdgeTypesAgree(d, e) ==
  LET s == Src(d, e) t == Dst(d, e) sop == Op(d, s[1]) top == Op(d, t[1])
      ks == PortKind(sop, "out", s[2]) kt == PortKind(top, "in", t[2]) IN
  /\ ks[1] = kt[1]
  /\ ks[1] = "Value" => NormT(ks[2]) = NormT(kt[2])
  /\ ks[1] = "Const" => NormT(StaticType(sop)) = NormT(StaticType(top))
  /\ ks[1] = "Function" => NormPoly(StaticType(sop)) = NormPoly(StaticType(top))
EdgesOK(d) == \A e \in Edges(d) :
  LET s == Src(d, e) t == Dst(d, e) IN
  /\ s[2] >= 0 /\ t[2] >= 0
  /\ s[2] < PortCount(Op(d, s[1]), "out") /\ t[2] < PortCount(Op(d, t[1]), "in")     \* port counts = the op's signature
  /\ EdgeTypesAgree(d, e)
(* the part of EdgesOK that C03 states: every edge end addresses a port its operation has, and both ends have the same kind
   (value ports by signature position, the static port right after the value inputs, the order port right after those) *)
PortAddressingOK(d) == \A e \in Edges(d) :
  LET s == Src(d, e) t == Dst(d, e) IN
  /\ s[2] >= 0 /\ t[2] >= 0
  /\ s[2] < PortCount(Op(d, s[1]), "out") /\ t[2] < PortCount(Op(d, t[1]), "in")
  /\ PortKind(Op(d, s[1]), "out", s[2])[1] = PortKind(Op(d, t[1]), "in", t[2])[1]
RootNoEdges(d) == \A e \in Edges(d) : Src(d, e)[1] # 0 /\ Dst(d, e)[1] # 0

(* ---------------------------------------------------------------- locality *)
RECURSIVE AncSib(_, _, _)
(* the ancestor-or-self of t whose parent is sp, or -1 *)
AncSib(d, sp, t) == IF t = 0 THEN -1 ELSE IF Par(d, t) = sp THEN t ELSE AncSib(d, sp, Par(d, t))
EntersFuncDefn(d, a, t) ==   \* a is the sibling-ancestor of t (a # t): some node on the path a .. parent(t) is a FuncDefn
  LET RECURSIVE Up(_) Up(x) == IF x = a THEN Op(d, a).op = "FuncDefn" ELSE Op(d, x).op = "FuncDefn" \/ Up(Par(d, x)) IN
  Up(Par(d, t))
HasOrderEdge(d, a, b) == \E e \in Edges(d) :
  /\ Src(d, e)[1] = a /\ Dst(d, e)[1] = b
  /\ PortKind(Op(d, a), "out", Src(d, e)[2])[1] = "Order" /\ PortKind(Op(d, b), "in", Dst(d, e)[2])[1] = "Order"
IsLocal(d, e) == Par(d, Src(d, e)[1]) = Par(d, Dst(d, e)[1])
IsDom(d, e) ==     \* source in a basic block, target inside another block of the same CFG
  LET s == Src(d, e)[1] t == Dst(d, e)[1] sp == Par(d, s) IN
  /\ Op(d, sp).op = "DataflowBlock"
  /\ LET tb == AncSib(d, Par(d, sp), t) IN tb >= 0 /\ tb # sp
LocalityOK(d) == \A e \in Edges(d) :
  LET s == Src(d, e)[1] t == Dst(d, e)[1] k == PortKind(Op(d, s), "out", Src(d, e)[2])[1] a == AncSib(d, Par(d, s), t) IN
  ~IsLocal(d, e) =>
     /\ k \in {"Value", "Const", "Function"}                      \* order and control-flow edges are local
     /\ \/ a >= 0 /\ (k = "Value" => HasOrderEdge(d, s, a) /\ ~EntersFuncDefn(d, a, t))     \* Ext
        \/ a < 0 /\ k = "Value" /\ IsDom(d, e)                                            \* Dom
CfgEdgesOK(d) == \A e \in Edges(d) :
  LET s == Src(d, e) t == Dst(d, e) sop == Op(d, s[1]) top == Op(d, t[1]) IN
  sop.op = "DataflowBlock" =>
     /\ Par(d, s[1]) = Par(d, t[1])
     /\ s[2] < Len(sop.sum_rows)
     /\ IF top.op = "ExitBlock" THEN NRow(SuccOutputs(sop, s[2])) = NRow(top.cfg_outputs)
        ELSE top.op = "DataflowBlock" /\ NRow(SuccOutputs(sop, s[2])) = NRow(top.inputs)

(* ---------------------------------------------------------------- constants inhabit their type (wire form) *)
RECURSIVE WireInhabits(_)
WireInhabits(v) ==
  CASE v.v = "Sum" ->
         LET rows == SumRows(v.typ) IN
         /\ v.tag >= 0 /\ v.tag < Len(rows) /\ Len(v.vs) = Len(rows[v.tag + 1])
         /\ \A i \in 1..Len(v.vs) : NormT(WireTypeOf(v.vs[i])) = NormT(rows[v.tag + 1][i]) /\ WireInhabits(v.vs[i])
    [] v.v = "Tuple" -> \A i \in 1..Len(v.vs) : WireInhabits(v.vs[i])
    [] OTHER -> TRUE
ConstsOK(d) == \A n \in NodeIds(d) : Op(d, n).op = "Const" => WireInhabits(Op(d, n).v)

Builder(d) == IndexSane(d) /\ ChildrenOK(d) /\ EdgesOK(d) /\ RootNoEdges(d) /\ LocalityOK(d) /\ CfgEdgesOK(d) /\ ConstsOK(d)

(* ---------------------------------------------------------------- what the program owes *)
Copyable(t) == Bound(t) = "C"
InLinks(d, n, o)  == {e \in Edges(d) : Dst(d, e) = <<n, o>>}
OutLinks(d, n, o) == {e \in Edges(d) : Src(d, e) = <<n, o>>}
InputsConnected(d) == \A n \in 1..(N(d) - 1) :
  /\ \A o \in 0..(NVal(Op(d, n), "in") - 1) : Cardinality(InLinks(d, n, o)) = 1
  /\ StaticKind(Op(d, n), "in") # "none" => Cardinality(InLinks(d, n, NVal(Op(d, n), "in"))) = 1
LinearOnce(d) == \A n \in 1..(N(d) - 1) : \A o \in 0..(NVal(Op(d, n), "out") - 1) :
  ~Copyable(DfSig(Op(d, n))[2][o + 1]) => Cardinality(OutLinks(d, n, o)) = 1
BlockSuccOnce(d) == \A n \in 1..(N(d) - 1) : Op(d, n).op = "DataflowBlock" =>
  \A o \in 0..(Len(Op(d, n).sum_rows) - 1) : Cardinality(OutLinks(d, n, o)) = 1
NonLocalCopyable(d) == \A e \in Edges(d) :
  LET k == PortKind(Op(d, Src(d, e)[1]), "out", Src(d, e)[2]) IN
  (~IsLocal(d, e) /\ k[1] = "Value") => Copyable(k[2])
(* acyclicity of every dataflow sibling graph, every edge lifted to the children of the container *)
RECURSIVE Reach(_, _, _)
Reach(E, S, k) == IF k = 0 THEN S ELSE LET S2 == S \cup {y[2] : y \in {x \in E : x[1] \in S}} IN IF S2 = S THEN S ELSE Reach(E, S2, k - 1)
(* (a static edge - Function or Const - that leaves the region is not lifted: it needs no state-order edge and its source has no
   inputs, so it cannot close a cycle; lifting it would turn a recursive call, FuncDefn -> Call inside its own body, into a loop) *)
SibEdges(d, p) == {<<Src(d, e)[1], AncSib(d, p, Dst(d, e)[1])>> :
                     e \in {x \in Edges(d) : /\ Par(d, Src(d, x)[1]) = p /\ Src(d, x)[1] # 0
                                             /\ ~(PortKind(Op(d, Src(d, x)[1]), "out", Src(d, x)[2])[1] \in {"Function", "Const"} /\ ~IsLocal(d, x))}}
Acyclic(d) == \A p \in NodeIds(d) : HasInner(Op(d, p)) =>
  LET E == {x \in SibEdges(d, p) : x[2] >= 0} IN
  \A n \in {x[1] : x \in E} : n \notin Reach(E, {y[2] : y \in {x \in E : x[1] = n}}, N(d))
(* dominance for Dom edges: every path from the entry block to the target's block passes through the source's block *)
CfgSucc(d, c) == {<<Src(d, e)[1], Dst(d, e)[1]>> : e \in {x \in Edges(d) : Op(d, Src(d, x)[1]).op = "DataflowBlock" /\ Par(d, Src(d, x)[1]) = c}}
Dominates(d, c, a, b) == LET entry == Children(d, c)[1] E == {x \in CfgSucc(d, c) : x[1] # a /\ x[2] # a} IN
                         a = b \/ (entry # a => b \notin (Reach(E, {entry}, N(d)) \cup {entry}))
DomOK(d) == \A e \in Edges(d) :
  LET s == Src(d, e)[1] t == Dst(d, e)[1] k == PortKind(Op(d, s), "out", Src(d, e)[2])[1] sp == Par(d, s) IN
  (k = "Value" /\ ~IsLocal(d, e) /\ AncSib(d, sp, t) < 0 /\ IsDom(d, e)) => Dominates(d, Par(d, sp), sp, AncSib(d, Par(d, sp), t))
User(d) == InputsConnected(d) /\ LinearOnce(d) /\ BlockSuccOnce(d) /\ NonLocalCopyable(d) /\ Acyclic(d) /\ DomOK(d)

Valid(d) == Builder(d) /\ User(d)

(* names of the failing clauses, for diagnostics *)
Failing(d) ==
  (IF IndexSane(d) THEN {} ELSE {"IndexSane"}) \cup
  (IF ~IndexSane(d) THEN {} ELSE
     (IF ChildrenOK(d) THEN {} ELSE {"ChildrenOK"}) \cup (IF EdgesOK(d) THEN {} ELSE {"EdgesOK"}) \cup
     (IF RootNoEdges(d) THEN {} ELSE {"RootNoEdges"}) \cup (IF PortAddressingOK(d) THEN {} ELSE {"PortAddressing"}) \cup
     (IF ~EdgesOK(d) THEN {} ELSE
        (IF LocalityOK(d) THEN {} ELSE {"LocalityOK"}) \cup (IF CfgEdgesOK(d) THEN {} ELSE {"CfgEdgesOK"}) \cup
        (IF InputsConnected(d) THEN {} ELSE {"User.InputsConnected"}) \cup (IF LinearOnce(d) THEN {} ELSE {"User.LinearOnce"}) \cup
        (IF BlockSuccOnce(d) THEN {} ELSE {"User.BlockSuccOnce"}) \cup (IF NonLocalCopyable(d) THEN {} ELSE {"User.NonLocalCopyable"}) \cup
        (IF Acyclic(d) THEN {} ELSE {"User.Acyclic"}) \cup (IF DomOK(d) THEN {} ELSE {"User.DomOK"})) \cup
     (IF ConstsOK(d) THEN {} ELSE {"ConstsOK"}))
=============================================================================
