----------------------------- MODULE MC_Envelope -----------------------------
EXTENDS Envelope, Json
CONSTANTS MaxMods, MaxExts, Levels
VARIABLES mode, x, y, nm, ne, lvl, text
mvars == <<mode, x, y, nm, ne, lvl, text>>
Pkg(m, e) == [modules |-> [i \in 1..m |-> i], extensions |-> [i \in 1..e |-> i]]
MCInit ==
  /\ Init
  /\ \/ mode = "hdr"   /\ x \in 0..255 /\ y \in 0..255 /\ nm = 0 /\ ne = 0 /\ lvl = NoLevel /\ text = FALSE
     \/ mode = "trunc" /\ x \in 0..9 /\ y \in {64, 65} /\ nm = 0 /\ ne = 0 /\ lvl = NoLevel /\ text = FALSE
     \/ mode = "magic" /\ x \in 1..8 /\ y \in {1, 32, 128, 255} /\ nm = 0 /\ ne = 0 /\ lvl = NoLevel /\ text = FALSE
     \/ mode = "pkg"   /\ x \in Formats /\ y = 0 /\ nm \in 0..MaxMods /\ ne \in 0..MaxExts /\ lvl \in Levels /\ text \in BOOLEAN
MCNext == \/ mode = "pkg" /\ Write(Pkg(nm, ne), x, lvl) /\ UNCHANGED mvars
          \/ mode = "pkg" /\ Read /\ UNCHANGED mvars
Bytes == CASE mode = "hdr"   -> Magic \o <<x, y>>
           [] mode = "trunc" -> SubSeq(HeaderBytes(FmtJson, y = 65), 1, x)
           [] mode = "magic" -> [HeaderBytes(FmtJson, FALSE) EXCEPT ![x] = (@ + y) % 256]
           [] OTHER          -> HeaderBytes(x, lvl # NoLevel)
(* can this configuration be encoded at all? bytes: readable formats only (native encoder absent);
   text: printable format and no compression (a zstd frame is not text) *)
Encodable == x \in Readable /\ (text => x \in Printable /\ lvl = NoLevel)
TextRefused == text /\ x \notin Printable            \* to_str must raise ValueError
EmitInv ==
  PrintT(ToJson([mode |-> mode, x |-> x, y |-> y, nm |-> nm, ne |-> ne, lvl |-> lvl, text |-> text,
                 bytes |-> Bytes, dec |-> DecodeHeader(Bytes),
                 encodable |-> (mode = "pkg" /\ Encodable), refused |-> (mode = "pkg" /\ TextRefused)]))
LevelsQuick == {-1, 0, 3}
LevelsFull == {-1, 0, 1, 3, 19}
EmitOnce == (~chan.full) => EmitInv
=============================================================================
