----------------------------- MODULE Trace_BiMap -----------------------------
(* Batch validation of executions recorded from the real hugr.utils.BiMap.  Every event carries the
   call, its arguments, the outcome class and the two dictionaries *as observed afterwards*; the trace is
   accepted iff each step is a step of BiMap!Next that ends in exactly the observed state. *)
EXTENDS BiMap, Sequences, Json, IOUtils, TLCExt
Traces == JsonDeserialize(IOEnv.TRACE_FILE)
VARIABLES tid, l
tvars == <<vars, tid, l>>
ToSet(s) == {s[i] : i \in 1..Len(s)}
AsMap(ps) == [k \in {p[1] : p \in ToSet(ps)} |-> (CHOOSE p \in ToSet(ps) : p[1] = k)[2]]
TInit == Init /\ tid \in 1..Len(Traces) /\ l = 1
Step(e) ==
  CASE e.a = "Construct"   -> Construct(AsMap(e.m))
    [] e.a = "InsertLeft"  -> InsertLeft(e.k, e.v)
    [] e.a = "InsertRight" -> InsertRight(e.v, e.k)
    [] e.a = "SetItem"     -> SetItem(e.k, e.v)
    [] e.a = "DeleteLeft"  -> DeleteLeft(e.k)
    [] e.a = "DelItem"     -> DelItem(e.k)
    [] e.a = "DeleteRight" -> DeleteRight(e.v)
TNext == /\ l <= Len(Traces[tid])
         /\ LET e == Traces[tid][l] IN
            /\ Step(e)
            /\ res' = e.res
            /\ Pairs(fwd') = ToSet(e.fwd) /\ Pairs(bck') = ToSet(e.bck)
            /\ Cardinality(DOMAIN fwd') = e.len
         /\ l' = l + 1 /\ UNCHANGED tid
TSpec == TInit /\ [][TNext]_tvars
TStepLaws == [][StepLaws]_tvars
Progress == TLCSet(tid, l)                                   \* CONSTRAINT: remembers how far each trace got
InitRegs == \A i \in 1..Len(Traces) : TLCSet(i, 0)
TInit2 == InitRegs /\ TInit
Accepted == LET bad == {i \in 1..Len(Traces) : TLCGet(i) # Len(Traces[i]) + 1} IN
            IF bad = {} THEN TRUE ELSE PrintT(ToJson([rejected |-> {<<i, TLCGet(i)>> : i \in bad}])) /\ FALSE
=============================================================================
