---------------------------- MODULE MC_HugrSerial ----------------------------
(* Serialization laws over every reachable store state, and emission of the expected documents. *)
EXTENDS MC_HugrStore, HugrSerial
SerialLaws == RoundTripLaws(st[1])
BagPairs(b) == {<<e, b[e]>> : e \in DOMAIN b}
DocJson(d) == [nodes |-> d.nodes, edges |-> BagPairs(d.edges), metadata |-> d.metadata]
EmitSerial == (hist = <<>> \/ ~PortsExist(st[1]) \/ TLCGet("distinct") % SampleK # 0)
              \/ PrintT(ToJson([hist |-> hist, doc |-> DocJson(Serialize(st[1])), foreign |-> DocJson(ForeignWrite(st[1])),
                                orderports |-> [k \in 1..Len(Serialize(st[1]).nodes) |->
                                     LET w == WireOp(Serialize(st[1]).nodes[k].op) IN
                                     <<IF HasOrder(w, "out") THEN OrderOffset(w, "out") ELSE -1, IF HasOrder(w, "in") THEN OrderOffset(w, "in") ELSE -1>>],
                                wireops |-> [t \in {"root", "a", "b", "const", "call", "loadf", "loadc"} |-> WireOp(t)]]))
=============================================================================
