------------------------------ MODULE MC_Types ------------------------------
(* C05 (types, params, args), C07: one initial state per term; the invariants check the algebraic laws and
   print the term with everything the implementation must agree with. *)
EXTENDS HugrTerms, Json
CONSTANTS RowMax, RowMax2, Depth,
          ArrayBSpec, ListBSpec, StaticArrayBSpec     \* bound specifications of the std collection definitions (read from the repository's JSON at run time)
VARIABLES kind, x
TypesAll == Types1(RowMax) \cup (IF Depth >= 2 THEN Types2(RowMax2) ELSE {}) \cup (IF Depth >= 3 THEN Types3(1) ELSE {})
Init == \/ kind = "type"  /\ x \in TypesAll
        \/ kind = "param" /\ x \in Params2
        \/ kind = "arg"   /\ x \in PlainArgs
Next == UNCHANGED <<kind, x>>
ArrayOf(e)  == ExtT("collections.array", "array", <<NatArg(2), TyArg(e)>>, ArrayBSpec)
ListOf(e)   == ExtT("collections.list", "List", <<TyArg(e)>>, ListBSpec)
Laws ==
  kind = "type" =>
    /\ CopyableIffAtoms(x)                               \* C07: copyable exactly when every constituent is
    /\ Bound(Desugar(x)) = Bound(x)                      \* the serialized form reports the same bound
    /\ Desugar(Desugar(x)) = Desugar(x)
    /\ ~IsSugarT(Desugar(x))
    /\ (x.t = "Ext" => Desugar(x).bound = Bound(x))      \* bound written into a serialized extension type = computed bound
    /\ (IsSumT(x) /\ SumRows(x) = <<>> => Bound(x) = "C")    \* the empty sum is copyable
    /\ Bound(ArrayOf(x)) = Bound(x) /\ Bound(ListOf(x)) = Bound(x)
Emit ==
  PrintT(ToJson(
    IF kind = "type" THEN
      [kind |-> kind, t |-> x, enc |-> Desugar(x), bound |-> Bound(x), sugar |-> IsSugarT(x) \/ (x.t = "Sum" /\ x.s = "Unit"),
       array_bound |-> Bound(ArrayOf(x)), list_bound |-> Bound(ListOf(x)),
       array_enc |-> Desugar(ArrayOf(x)),
       static_array_ok |-> (Bound(x) = "C")]
    ELSE [kind |-> kind, t |-> x]))
=============================================================================
