------------------------------- MODULE BiMap -------------------------------
(* hugr.utils.BiMap: a bidirectional map kept as two dictionaries (fwd, bck), modelled the way it is
   implemented (two maps, updated separately), so that "the two views are inverses" is a theorem to be
   checked and not a definition.  One action per public mutating call; `res` is the call's outcome class. *)
EXTENDS Integers, FiniteSets, TLC

CONSTANTS K, V          \* key tokens / value tokens (bound to 0, "", (), 1, "a", ... by the adapter)

VARIABLES fwd, bck, res, alive
vars == <<fwd, bck, res, alive>>

Pairs(f)   == {<<k, f[k]>> : k \in DOMAIN f}
Inv(f)     == [v \in {f[k] : k \in DOMAIN f} |-> CHOOSE k \in DOMAIN f : f[k] = v]
Injective(f) == \A a, b \in DOMAIN f : f[a] = f[b] => a = b
Drop(f, S) == [x \in DOMAIN f \ S |-> f[x]]
Flip(P)    == {<<p[2], p[1]>> : p \in P}
Maps(S, T) == UNION {[D -> T] : D \in SUBSET S}

TypeOK == /\ fwd \in Maps(K, V) /\ bck \in Maps(V, K)
          /\ res \in {"new", "ok", "KeyError", "NotBijection"} /\ alive \in BOOLEAN

Init == fwd = <<>> /\ bck = <<>> /\ res = "new" /\ alive = FALSE

(* BiMap(m): rejected unless m is injective *)
Construct(m) ==
  /\ ~alive /\ res = "new"
  /\ IF Injective(m)
       THEN fwd' = m /\ bck' = Inv(m) /\ res' = "ok" /\ alive' = TRUE
       ELSE UNCHANGED <<fwd, bck>> /\ res' = "NotBijection" /\ alive' = FALSE

(* insert_left(k, v): first the pair that shares the value loses its forward entry, then the pair that
   shares the key loses its backward entry, then both entries are written. *)
InsertLeft(k, v) ==
  /\ alive
  /\ LET ek   == IF v \in DOMAIN bck THEN {bck[v]} ELSE {}
         fwd1 == Drop(fwd, ek)
         ev   == IF k \in DOMAIN fwd1 THEN {fwd1[k]} ELSE {}
         bck1 == Drop(bck, ev)
     IN /\ fwd' = (k :> v) @@ fwd1
        /\ bck' = (v :> k) @@ bck1
  /\ res' = "ok" /\ UNCHANGED alive
InsertRight(v, k) == InsertLeft(k, v)
SetItem(k, v)     == InsertLeft(k, v)

DeleteLeft(k) ==
  /\ alive
  /\ IF k \in DOMAIN fwd
       THEN fwd' = Drop(fwd, {k}) /\ bck' = Drop(bck, {fwd[k]}) /\ res' = "ok"
       ELSE UNCHANGED <<fwd, bck>> /\ res' = "KeyError"
  /\ UNCHANGED alive
DelItem(k) == DeleteLeft(k)

DeleteRight(v) ==
  /\ alive
  /\ IF v \in DOMAIN bck
       THEN fwd' = Drop(fwd, {bck[v]}) /\ bck' = Drop(bck, {v}) /\ res' = "ok"
       ELSE UNCHANGED <<fwd, bck>> /\ res' = "KeyError"
  /\ UNCHANGED alive

Next == \/ \E m \in Maps(K, V) : Construct(m)
        \/ \E k \in K, v \in V : InsertLeft(k, v) \/ InsertRight(v, k) \/ SetItem(k, v)
        \/ \E k \in K : DeleteLeft(k) \/ DelItem(k)
        \/ \E v \in V : DeleteRight(v)
Spec == Init /\ [][Next]_vars

-----------------------------------------------------------------------------
(* The property C18 *)
Inverse == Pairs(bck) = Flip(Pairs(fwd))            \* the two views are exact inverses
Bijection == Injective(fwd) /\ Injective(bck)

(* an insertion displaces exactly the pairs sharing its key or its value *)
DisplacesOnly(k, v) ==
  Pairs(fwd') = (Pairs(fwd) \ {p \in Pairs(fwd) : p[1] = k \/ p[2] = v}) \cup {<<k, v>>}
(* a successful deletion removes exactly the addressed pair; a failed one changes nothing *)
DeleteExactL(k) == IF k \in DOMAIN fwd THEN Pairs(fwd') = Pairs(fwd) \ {<<k, fwd[k]>>} /\ res' = "ok"
                   ELSE Pairs(fwd') = Pairs(fwd) /\ res' = "KeyError"
DeleteExactR(v) == IF v \in {p[2] : p \in Pairs(fwd)} THEN Pairs(fwd') = {p \in Pairs(fwd) : p[2] # v} /\ res' = "ok"
                   ELSE Pairs(fwd') = Pairs(fwd) /\ res' = "KeyError"

StepLaws ==
  /\ \A k \in K, v \in V : (InsertLeft(k, v) \/ InsertRight(v, k) \/ SetItem(k, v)) => DisplacesOnly(k, v)
  /\ \A k \in K : (DeleteLeft(k) \/ DelItem(k)) => DeleteExactL(k)
  /\ \A v \in V : DeleteRight(v) => DeleteExactR(v)
ConstructLaw == \A m \in Maps(K, V) : Construct(m) => (res' = "NotBijection") = ~Injective(m)
StepLawsProp == [][StepLaws /\ ConstructLaw]_vars

(* what a client can observe *)
Obs == [fwd |-> Pairs(fwd), bck |-> Pairs(bck), len |-> Cardinality(DOMAIN fwd),
        getr |-> {<<k, IF k \in DOMAIN fwd THEN fwd[k] ELSE -1>> : k \in K},
        getl |-> {<<v, IF v \in DOMAIN bck THEN bck[v] ELSE -1>> : v \in V}]
=============================================================================
