------------------------------ MODULE MC_Shots ------------------------------
(* Enumerates ALL entry sequences up to MaxLen (no VIEW: the implementation keeps the whole entry list, so
   two histories reaching the same register file are not interchangeable) and prints, for each extension,
   the expected outcome of to_register_bits() and collate_tags(). *)
EXTENDS Shots, Json
CONSTANT MaxLen
I(n) == [k |-> "int",  v |-> n, vs |-> <<>>]
B(n) == [k |-> "bool", v |-> n, vs |-> <<>>]
X(n) == [k |-> "bad",  v |-> n, vs |-> <<>>]     \* bound by the adapter to 2, -1, 0.5, "1", None
L(s) == [k |-> "list", v |-> 0, vs |-> s]
T(n, i) == [name |-> n, idx |-> i]
TagsSmall == {T("c", -1), T("c", 0), T("c", 2), T("d", 1), T("w0", -1)}
ValsSmall == {I(0), I(1), B(1), B(0), X(0), L(<<I(1), I(0)>>), L(<<B(1)>>), L(<<>>), L(<<I(1), X(2)>>), L(<<L(<<I(1)>>), I(0)>>)}
TagsOne == {T("c", -1), T("c", 0), T("c", 1), T("c", 2), T("w1", -1)}
ValsWide == ValsSmall \cup {X(1), X(2), X(3), X(4), L(<<I(0), I(1), B(1)>>), L(<<I(0)>>)}
ValsTiny == {I(1), B(0), L(<<I(0), I(1)>>), X(0)}
MCNext == Len(entries) < MaxLen /\ Next
Emit == PrintT(ToJson([entries |-> entries',
                       bits |-> ObsBits(~err', regs'),
                       coll |-> ObsCollate(entries')]))
StepLawProp == [][StepLaw /\ ErrSticky]_vars
=============================================================================
