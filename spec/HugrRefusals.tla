----------------------------- MODULE HugrRefusals -----------------------------
(* C13: which builder calls are inconsistent, and how each must be refused.  Every class is a decision function
   from the relevant facts of the situation to the outcome: "ok" or the error class.  Rows are sequences of
   type tokens; a situation for wiring is a skeleton [par, kind] of the hierarchy (node -> parent, node -> op kind)
   with a source node and a target node (the node being wired up). *)
EXTENDS Integers, Sequences, FiniteSets, TLC

(* ---- conditionals ---- *)
CaseOutputs(established, row) == IF established = <<"unset">> \/ established = row THEN "ok" ELSE "ConditionalError"
CaseIndex(ncases, built, i) ==          \* add_case(i) on a conditional with `ncases` cases of which `built` are already built
  IF i < 0 \/ i >= ncases THEN "ConditionalError" ELSE IF i \in built THEN "ConditionalError" ELSE "ok"
ExitContext(ncases, built) == IF built = 0..(ncases - 1) THEN "ok" ELSE "ConditionalError"
(* ---- CFG exit ---- *)
ExitBranch(established, row) == IF established = <<"unset">> \/ established = row THEN "ok" ELSE "MismatchedExit"
(* ---- functions ---- *)
FunctionOutputs(declared, row) == IF declared = <<"undeclared">> \/ declared = row THEN "ok" ELSE "ValueError"
PolyUse(nparams, ntypeargs, instGiven) ==
  IF nparams = 0 THEN "ok" ELSE IF ~instGiven \/ nparams # ntypeargs THEN "NoConcreteFunc" ELSE "ok"
CallTarget(kind) == IF kind \in {"FuncDefn", "FuncDecl"} THEN "ok" ELSE "Error"            \* a non-function used as one (any exception)
WireSource(portKind) == IF portKind = "Value" THEN "ok" ELSE "Error"                       \* a non-dataflow port used as a wire (undocumented: any exception)
(* ---- integer wire indices ---- *)
IntArg(tracking, isTracked) == IF ~tracking THEN "ValueError" ELSE IF isTracked THEN "ok" ELSE "IndexError"

(* ---- wiring relation over a hierarchy skeleton ---- *)
RECURSIVE AncSibS(_, _, _)
AncSibS(par, sp, t) == IF t = 0 THEN -1 ELSE IF par[t] = sp THEN t ELSE AncSibS(par, sp, par[t])
RECURSIVE Ancestors(_, _)
Ancestors(par, n) == IF n = 0 THEN {0} ELSE {n} \cup Ancestors(par, par[n])
(* The locality the HUGR specification gives a value edge s -> t (hugr.md, Edge locality; validate.rs validate_edge):
   Local / Ext (the source's parent is the parent of an ancestor of t) / Dom (the source sits directly in a basic block,
   and t lies in or below *another* block of the same CFG) / None. *)
TrueRelation(par, kind, s, t) ==
  LET sp == par[s] a == AncSibS(par, sp, t) IN
  IF a >= 0 THEN (IF a = t THEN "Local" ELSE "Ext")
  ELSE IF kind[sp] = "DataflowBlock" /\ AncSibS(par, par[sp], t) >= 0 /\ AncSibS(par, par[sp], t) # sp THEN "Dom"
  ELSE "None"
(* what the builder used for t's parent owes: accept Local and Ext; accept Dom when it is the builder of a basic block of the
   same CFG (a Dom wire requested through a builder nested below that block is valid HUGR but the builder may refuse it: "any"); refuse None *)
WireOutcome(par, kind, s, t) ==
  CASE TrueRelation(par, kind, s, t) \in {"Local", "Ext"} -> "ok"
    [] TrueRelation(par, kind, s, t) = "Dom" -> IF kind[par[t]] = "DataflowBlock" /\ par[par[t]] = par[par[s]] THEN "ok" ELSE "any"
    [] OTHER -> "Refuse"                                  \* NoSiblingAncestor or NotInSameCfg
=============================================================================
