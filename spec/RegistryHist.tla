------------------------------ MODULE RegistryHist ------------------------------
(* C11 over histories of ONE registry object: definitions are added over time (a new extension, or a type definition added
   to an extension that is already registered) and types are resolved in between.  What a resolution returns depends on
   the registry's content at that moment only -- not on what was looked up earlier. *)
EXTENDS HugrTerms, Json
VARIABLES reg, last, hist
Keys == {<<"e1", "Lin">>, <<"e1", "P">>, <<"e2", "Q2">>}
Defs == (<<"e1", "Lin">> :> Explicit("A")) @@ (<<"e1", "P">> :> FromParams(<<0>>)) @@ (<<"e2", "Q2">> :> Explicit("A"))
Lin == OpaqueT("e1", "Lin", <<>>, "A")
Q2  == OpaqueT("e2", "Q2", <<>>, "A")
Probe == {Lin, OpaqueT("e1", "P", <<TyArg(Lin)>>, "A"), TupleT(<<Lin, Q2>>), FnT(<<Q2>>, <<OpaqueT("e1", "P", <<TyArg(Q2)>>, "A")>>)}
CONSTANT MaxLen
Init == reg = <<>> /\ last = [none |-> TRUE] /\ hist = <<>>
AddDef(k) == /\ k \notin DOMAIN reg /\ reg' = (k :> Defs[k]) @@ reg /\ UNCHANGED last
             /\ hist' = Append(hist, [a |-> "AddDef", ext |-> k[1], id |-> k[2], bspec |-> Defs[k]])
ResolveT(t) == /\ last' = Resolve(t, reg) /\ UNCHANGED reg
               /\ hist' = Append(hist, [a |-> "Resolve", t |-> t])
Next == Len(hist) < MaxLen /\ (\/ \E k \in Keys : AddDef(k) \/ \E t \in Probe : ResolveT(t))
(* a resolution is a function of the current registry *)
Law == [][\A t \in Probe : ResolveT(t) => last' = Resolve(t, reg)]_<<reg, last, hist>>
Emit == (hist' # <<>> /\ hist'[Len(hist')].a = "Resolve") => PrintT(ToJson([hist |-> hist', res |-> last']))
=============================================================================
