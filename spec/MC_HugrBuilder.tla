---------------------------- MODULE MC_HugrBuilder ----------------------------
EXTENDS HugrBuilder, Json
RootBQ == <<BoolT, QubitT>>
RootB == <<BoolT>>
View == <<nodes, links, ctxs, done, used>>
EmitFinished == (Finished /\ hist # <<>>) => PrintT(ToJson([hist |-> hist, doc |-> Doc, counts |-> {<<n, NumOut(NodeOp(n))>> : n \in done}]))
=============================================================================
