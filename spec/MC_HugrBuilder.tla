---------------------------- MODULE MC_HugrBuilder ----------------------------
EXTENDS HugrBuilder, Json
RootBQ == <<BoolT, QubitT>>
RootB == <<BoolT>>
View == <<nodes, links, ctxs, pending, done, used>>
EmitFinished == (Finished /\ hist # <<>>) => PrintT(ToJson([hist |-> hist, doc |-> Doc, counts |-> {<<n, NumOut(NodeOp(n))>> : n \in done}]))
DebugFail == (Finished /\ ~(User(Doc) /\ Builder(Doc))) => PrintT(<<"FAIL", Failing(Doc), hist>>)
=============================================================================
