---------------------------- MODULE MC_HugrBuilder ----------------------------
EXTENDS HugrBuilder, Json
RootBQ == <<BoolT, QubitT>>
RootB == <<BoolT>>
View == <<nodes, links, ctxs, pending, done, used, refused, IF refused = "" THEN <<>> ELSE hist[Len(hist)]>>
CONSTANT SampleK            \* emit every SampleK-th finished state (1 = all)
RECURSIVE LinkSum(_)
LinkSum(j) == IF j = 0 THEN 0 ELSE links[j][1] + 3 * (links[j][2] + 1) + 5 * links[j][3] + 7 * (links[j][4] + 1) + LinkSum(j - 1)
SampleHash == (LinkSum(Len(links)) + 11 * NNodes) % SampleK        \* a function of the state: the sample does not depend on the search order
EmitFinished == (Finished /\ hist # <<>> /\ SampleHash = 0) => PrintT(ToJson([hist |-> hist, doc |-> Doc, counts |-> {<<n, NumOut(NodeOp(n))>> : n \in done}]))
DebugFail == (Finished /\ ~(User(Doc) /\ Builder(Doc))) => PrintT(<<"FAIL", Failing(Doc), hist>>)
EmitRefused == (refused # "" /\ SampleHash = 0) => PrintT(ToJson([hist |-> hist, refused |-> refused]))
=============================================================================
