------------------------------ MODULE MC_BiMap ------------------------------
(* Model-checking / emission wrapper: carries the action path in `hist` (hidden from state identity by
   VIEW) and prints one JSON line per explored transition. *)
EXTENDS BiMap, Sequences, Json
VARIABLE hist
Ev(a, k, v) == [a |-> a, k |-> k, v |-> v]
MCInit == Init /\ hist = <<>>
MCNext ==
  \/ \E m \in Maps(K, V) : Construct(m) /\ hist' = Append(hist, [a |-> "Construct", m |-> Pairs(m)])
  \/ \E k \in K, v \in V :
       \/ InsertLeft(k, v)  /\ hist' = Append(hist, Ev("InsertLeft", k, v))
       \/ InsertRight(v, k) /\ hist' = Append(hist, Ev("InsertRight", k, v))
       \/ SetItem(k, v)     /\ hist' = Append(hist, Ev("SetItem", k, v))
  \/ \E k \in K :
       \/ DeleteLeft(k) /\ hist' = Append(hist, Ev("DeleteLeft", k, -1))
       \/ DelItem(k)    /\ hist' = Append(hist, Ev("DelItem", k, -1))
  \/ \E v \in V : DeleteRight(v) /\ hist' = Append(hist, Ev("DeleteRight", -1, v))
View == vars
Emit == PrintT(ToJson([hist |-> hist', res |-> res', obs |-> Obs']))
MCStepLaws == [][StepLaws /\ ConstructLaw]_<<vars, hist>>
Bounded == Len(hist) <= 12
=============================================================================
