------------------------------ MODULE HugrSerial ------------------------------
(* Serialization of a store (HugrStore) into the wire document and back.
   A document is [nodes |-> <<[parent, op]>>, edges |-> bag of <<<<node, offset>>, <<node, offset>>>>,
   metadata |-> <<token>>]; node k of the document is nodes[k + 1]; `op` is the store's operation token,
   bound to a concrete wire operation by WireOp so that port structure (HugrWire) is available.
   Offsets: a value / static port is addressed by its own offset, a state-order link (API offset -1) by
   OrderOffset(op, dir) = value ports + static input; NullOff (-1) stands for JSON null ("no offset"), which the
   reference writer uses for non-dataflow ports. *)
EXTENDS HugrStore, HugrWire

NullOff == -1
TrueV == [v |-> "Sum", tag |-> 1, typ |-> UnitSumT(2), vs |-> <<>>]
Row2 == <<BoolT, BoolT>>
WireOp(tok) ==
  CASE tok = "root"  -> [op |-> "Module"]
    [] tok = "a"     -> [op |-> "Extension", extension |-> "verif.ext", name |-> "opA", signature |-> FnT(Row2, Row2),
                         description |-> "descr", args |-> <<>>]
    [] tok = "b"     -> [op |-> "DFG", signature |-> FnT(Row2, Row2)]
    [] tok = "const" -> [op |-> "Const", v |-> TrueV]
    [] tok = "call"  -> [op |-> "Call",                       \* row-polymorphic callee: the instantiation has another arity than the body
                         func_sig |-> [params |-> <<[tp |-> "List", param |-> [tp |-> "Type", b |-> "A"]]>>,
                                       body |-> FnT(<<[t |-> "R", i |-> 0, b |-> "A"]>>, <<[t |-> "R", i |-> 0, b |-> "A"]>>)],
                         type_args |-> <<[tya |-> "Sequence", elems |-> <<TyArg(BoolT), TyArg(BoolT)>>]>>,
                         instantiation |-> FnT(Row2, Row2)]
    [] tok = "loadf" -> [op |-> "LoadFunction", func_sig |-> [params |-> <<>>, body |-> FnT(Row2, <<>>)], type_args |-> <<>>,
                         instantiation |-> FnT(Row2, <<>>)]
    [] tok = "loadc" -> [op |-> "LoadConstant", datatype |-> BoolT]

(* the domain of C03's port-addressing clause and of C02: links attach only to ports the operations have *)
OffOK(tok, o, dir) == IF o = -1 THEN HasOrder(WireOp(tok), dir)
                      ELSE o < NVal(WireOp(tok), dir) + NStatic(WireOp(tok), dir)
PortsExist(s) == \A l \in BagToSet(s.links) : OffOK(s.op[l[1]], l[2], "out") /\ OffOK(s.op[l[3]], l[4], "in")

Ord(s) == Sorted(s.live)                 \* fresh ids: ascending id order is parent-first and keeps sibling order
Idx(s, n) == Rank(s.live, n)
SerOff(s, n, o, dir) == IF o = -1 THEN OrderOffset(WireOp(s.op[n]), dir) ELSE o
ForOff(s, n, o, dir) == IF o = -1 THEN NullOff ELSE o
EdgeOf(s, l, F(_, _, _, _)) == <<<<Idx(s, l[1]), F(s, l[1], l[2], "out")>>, <<Idx(s, l[3]), F(s, l[3], l[4], "in")>>>>
EdgeBag(s, F(_, _, _, _)) ==
  LET E == {EdgeOf(s, l, F) : l \in BagToSet(s.links)} IN
  [e \in E |-> LET S == {l \in BagToSet(s.links) : EdgeOf(s, l, F) = e}
                   RECURSIVE Sum(_) Sum(T) == IF T = {} THEN 0 ELSE LET x == CHOOSE y \in T : TRUE IN s.links[x] + Sum(T \ {x})
               IN Sum(S)]
DocOf(s, F(_, _, _, _)) ==
  LET ord == Ord(s) IN
  [nodes |-> [k \in 1..Len(ord) |-> [parent |-> Idx(s, s.parent[ord[k]]), op |-> s.op[ord[k]]]],
   edges |-> EdgeBag(s, F),
   metadata |-> [k \in 1..Len(ord) |-> s.meta[ord[k]]]]
Serialize(s)    == DocOf(s, SerOff)          \* what hugr-py writes
ForeignWrite(s) == DocOf(s, ForOff)          \* the same HUGR as the reference writer addresses its order ports

(* loading *)
LoadOff(tok, off, dir) ==
  IF off = NullOff THEN (IF HasOrder(WireOp(tok), dir) THEN -1 ELSE 0)
  ELSE IF HasOrder(WireOp(tok), dir) /\ off = OrderOffset(WireOp(tok), dir) THEN -1 ELSE off
Load(d) ==
  LET n == Len(d.nodes)
      opOf(k) == d.nodes[k + 1].op
      L(e) == Link(e[1][1], LoadOff(opOf(e[1][1]), e[1][2], "out"), e[2][1], LoadOff(opOf(e[2][1]), e[2][2], "in"))
      LS == {L(e) : e \in DOMAIN d.edges}
  IN [next |-> n, live |-> 0..(n - 1),
      op |-> [k \in 0..(n - 1) |-> opOf(k)],
      parent |-> [k \in 0..(n - 1) |-> d.nodes[k + 1].parent],
      children |-> [p \in 0..(n - 1) |-> SelectSeq([k \in 1..(n - 1) |-> k], LAMBDA c : d.nodes[c + 1].parent = p)],
      meta |-> [k \in 0..(n - 1) |-> d.metadata[k + 1]],
      links |-> [l \in LS |-> LET S == {e \in DOMAIN d.edges : L(e) = l}
                                  RECURSIVE Sum(_) Sum(T) == IF T = {} THEN 0 ELSE LET x == CHOOSE y \in T : TRUE IN d.edges[x] + Sum(T \ {x})
                              IN Sum(S)]]

(* ---- properties of documents ------------------------------------------------------------- *)
IndexSane(d) ==
  /\ Len(d.nodes) >= 1 /\ d.nodes[1].parent = 0                      \* node 0 is the root and its own parent
  /\ \A k \in 2..Len(d.nodes) : d.nodes[k].parent < k - 1             \* every other parent is listed earlier
  /\ \A e \in DOMAIN d.edges : e[1][1] \in 0..(Len(d.nodes) - 1) /\ e[2][1] \in 0..(Len(d.nodes) - 1)
  /\ Len(d.metadata) = Len(d.nodes)
PortAddressing(d) ==     \* every endpoint is a value/static offset or exactly the order offset of its operation
  \A e \in DOMAIN d.edges :
    LET so == WireOp(d.nodes[e[1][1] + 1].op) do == WireOp(d.nodes[e[2][1] + 1].op) IN
    /\ e[1][2] < PortCount(so, "out") /\ e[2][2] < PortCount(do, "in")
    /\ (PortKind(so, "out", e[1][2])[1] = "Order") = (e[1][2] = OrderOffset(so, "out") /\ HasOrder(so, "out"))
    /\ (PortKind(do, "in", e[2][2])[1] = "Order") = (e[2][2] = OrderOffset(do, "in") /\ HasOrder(do, "in"))

(* s and t are the same HUGR up to the order-preserving renumbering of node ids *)
SameUpToRenumbering(s, t) ==
  /\ Cardinality(s.live) = Cardinality(t.live)
  /\ LET f == [n \in s.live |-> Sorted(t.live)[Rank(s.live, n) + 1]] IN
     /\ \A n \in s.live : /\ t.op[f[n]] = s.op[n] /\ t.meta[f[n]] = s.meta[n] /\ t.parent[f[n]] = f[s.parent[n]]
                          /\ t.children[f[n]] = [k \in 1..Len(s.children[n]) |-> f[s.children[n][k]]]
     /\ \A l \in BagToSet(s.links) : LinkCount(t, Link(f[l[1]], l[2], f[l[3]], l[4])) = s.links[l]
     /\ BagCardinality(t.links) = BagCardinality(s.links)

RoundTripLaws(s) ==
  PortsExist(s) =>
    /\ IndexSane(Serialize(s)) /\ PortAddressing(Serialize(s))
    /\ SameUpToRenumbering(s, Load(Serialize(s)))                       \* lossless
    /\ Serialize(Load(Serialize(s))) = Serialize(s)                      \* fixed point
    /\ Load(ForeignWrite(s)) = Load(Serialize(s))                        \* a foreign writer's null offsets mean the same HUGR
=============================================================================
