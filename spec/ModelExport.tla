------------------------------ MODULE ModelExport ------------------------------
(* C12: the hugr-model export of a valid module-rooted HUGR, judged against the wire document it was made from.
     d   -- the raw wire document (as for HugrValidity), plus d.metakeys[k] = the metadata keys of node k-1
     exp -- the exported model as the Rust binding would read it, projected to
            region [kind, sources, targets, children, hints]       hints = <<a, b>> pairs of core.order_hint.order
            node   [op, sym, callee, inputs, outputs, regions, key, metakeys]
                   op = class of the operation; sym = symbol name of a Define/DeclareFunc; callee = symbol applied by a
                   core.call / function load ("" otherwise); key = core.order_hint.key or -1
   Written from hugr-core/src/export.rs (make_ports(value ports), export_dfg region meta, symbol table) and import.rs
   (link_ports: one name per hyperedge). *)
EXTENDS HugrValidity

KindOf(op) ==
  CASE op.op = "DFG" -> "Dfg" [] op.op = "CFG" -> "Cfg" [] op.op = "DataflowBlock" -> "Block"
    [] op.op = "FuncDefn" -> "DefineFunc" [] op.op = "FuncDecl" -> "DeclareFunc" [] op.op = "TailLoop" -> "TailLoop"
    [] op.op = "Conditional" -> "Conditional" [] op.op = "AliasDecl" -> "DeclareAlias" [] op.op = "AliasDefn" -> "DefineAlias"
    [] OTHER -> "CustomOp"
(* ports a node lists in the model: the value ports of its signature; control ports for a basic block *)
ModelIn(op)  == IF op.op = "DataflowBlock" THEN 1 ELSE NVal(op, "in")
ModelOut(op) == IF op.op = "DataflowBlock" THEN Len(op.sum_rows) ELSE NVal(op, "out")
Exported(d, p) == SelectSeq(Children(d, p), LAMBDA c : Op(d, c).op \notin {"Input", "Output", "Const", "ExitBlock"})
ToSetM(s) == {s[i] : i \in 1..Len(s)}

(* ---- the term language of exported signatures ---------------------------------------------------
   d.rows[k] = the row-valued fields of node k-1 of the wire document, every type translated on its own to a term and projected to
       [k |-> "ty", s]  (any other term, printed)   [k |-> "adt", rows]   [k |-> "ctrl", row]   [k |-> "fn", ins, outs]
   in a record of one shape [a, b, c, rows, targs] (unused fields empty; targs = the type arguments of a Call / LoadFunction):
       DFG/CFG/Extension/Call/LoadFunction/CallIndirect/FuncDefn/FuncDecl  a = inputs, b = outputs (of signature / instantiation / body)
       LoadConstant b = <<datatype>>       Conditional rows = sum_rows, a = other_inputs, b = outputs
       TailLoop a = just_inputs, b = just_outputs, c = rest      DataflowBlock a = inputs, rows = sum_rows, c = other_outputs
       Tag rows = variants      Input/Output a = types      ExitBlock a = cfg_outputs
   m.sig / r.sig / m.symsig = the exported signature terms under the same projection. How rows COMPOSE into the signature of each
   operation is the specification's (hugr-core/src/export.rs export_block_signature, ops/controlflow.rs, ops/dataflow.rs). *)
Fn(ins, outs) == [k |-> "fn", ins |-> ins, outs |-> outs]
Adt(rows)     == [k |-> "adt", rows |-> rows]
Ctrl(row)     == [k |-> "ctrl", row |-> row]
HasSigLaw(op) == op.op \in {"DFG", "CFG", "Extension", "Call", "CallIndirect", "LoadConstant", "LoadFunction", "Conditional", "TailLoop", "DataflowBlock", "Tag"}
ExpNodeSig(op, r) ==
  CASE op.op \in {"DFG", "CFG", "Extension", "Call"} -> Fn(r.a, r.b)
    [] op.op = "CallIndirect"  -> Fn(<<Fn(r.a, r.b)>> \o r.a, r.b)              \* the function value, then its arguments
    [] op.op = "LoadConstant"  -> Fn(<<>>, r.b)
    [] op.op = "LoadFunction"  -> Fn(<<>>, <<Fn(r.a, r.b)>>)                      \* no value inputs; one output: the function VALUE
    [] op.op = "Conditional"   -> Fn(<<Adt(r.rows)>> \o r.a, r.b)                \* the branching sum, then the other inputs
    [] op.op = "TailLoop"      -> Fn(r.a \o r.c, r.b \o r.c)
    [] op.op = "DataflowBlock" -> Fn(<<Ctrl(r.a)>>, [j \in 1..Len(r.rows) |-> Ctrl(r.rows[j] \o r.c)])   \* EVERY successor gets the other outputs
    [] op.op = "Tag"           -> Fn(r.rows[op.tag + 1], <<Adt(r.rows)>>)
    [] OTHER -> Fn(<<>>, <<>>)
(* the operation term of a custom operation: core.call [ins] [outs] f, core.call_indirect [ins] [outs], core.load_const type value,
   core.make_adt [[variants]] [types of the tagged variant] tag   (m.opsym, m.opargs: lists as [k |-> "list", parts], literals printed) *)
L(row) == [k |-> "list", parts |-> row]
Wild   == [k |-> "ty", s |-> "Wildcard()"]
OpTermOK(op, r, m) ==
  CASE op.op = "Call" -> /\ m.opsym = "core.call" /\ Len(m.opargs) = 3 /\ m.opargs[1] = L(r.a) /\ m.opargs[2] = L(r.b)
                         /\ m.ncalleeargs = Len(op.type_args) /\ m.calleeargs = r.targs     \* the symbol is applied to the call's type arguments, in order
    [] op.op = "CallIndirect" -> m.opsym = "core.call_indirect" /\ m.opargs = <<L(r.a), L(r.b)>>
    [] op.op = "LoadConstant" -> m.opsym = "core.load_const" /\ Len(m.opargs) = 2 /\ m.opargs[1] \in {r.b[1], Wild}
    [] op.op = "LoadFunction" -> /\ m.opsym = "core.load_const" /\ Len(m.opargs) = 2 /\ m.opargs[1] \in {Fn(r.a, r.b), Wild}
                                 /\ m.ncalleeargs = Len(op.type_args) /\ m.calleeargs = r.targs
    [] op.op = "Tag" -> /\ m.opsym = "core.make_adt"
                        /\ m.opargs = <<L([j \in 1..Len(r.rows) |-> L(r.rows[j])]), L(r.rows[op.tag + 1]), [k |-> "lit", s |-> ToString(op.tag)]>>
    [] OTHER -> TRUE
(* the signature's arity is the number of listed ports (the property's "value ports of its signature") *)
SigArityOK(m) == m.sig.k = "fn" /\ Len(m.sig.ins) = Len(m.inputs) /\ Len(m.sig.outs) = Len(m.outputs)

(* ---- regions mirror the hierarchy -------------------------------------------------------------- *)
RECURSIVE NodeOK(_, _, _), DfgRegionOK(_, _, _), CfgRegionOK(_, _, _)
NodeOK(d, n, m) ==
  LET op == Op(d, n) IN
  /\ m.op = KindOf(op)
  /\ Len(m.inputs) = ModelIn(op) /\ Len(m.outputs) = ModelOut(op)          \* exactly the value ports of the signature
  /\ ToSetM(m.metakeys) = ToSetM(d.metakeys[n + 1])                       \* node metadata is carried over (entries "key=json value")
  /\ (op.op = "LoadConstant" => m.constterm = d.constterms[n + 1])        \* a load inlines the value of ITS constant (printed term)
  /\ (op.op \in {"FuncDefn", "FuncDecl"} =>                                \* the symbol has the function's type parameters, and exactly
        /\ m.nparams = Len(op.signature.params)                              \* the copyable type parameters carry a core.nonlinear constraint
        /\ ToSetM(m.nonlinear) = {k - 1 : k \in {j \in 1..Len(op.signature.params) :
                                                  op.signature.params[j].tp = "Type" /\ op.signature.params[j].b = "C"}}
        /\ Len(m.nonlinear) = Cardinality(ToSetM(m.nonlinear)))
  /\ (HasSigLaw(op) => m.sig = ExpNodeSig(op, d.rows[n + 1]) /\ SigArityOK(m) /\ OpTermOK(op, d.rows[n + 1], m))                  \* the exported signature term
  /\ (op.op \in {"FuncDefn", "FuncDecl"} => m.symsig = Fn(d.rows[n + 1].a, d.rows[n + 1].b))     \* the symbol's type is the body
  /\ CASE HasInner(op) -> Len(m.regions) = 1 /\ DfgRegionOK(d, n, m.regions[1])
       [] op.op = "Conditional" -> /\ Len(m.regions) = Len(Children(d, n))
                                   /\ \A k \in 1..Len(m.regions) : DfgRegionOK(d, Children(d, n)[k], m.regions[k])   \* cases in order
       [] op.op = "CFG" -> Len(m.regions) = 1 /\ CfgRegionOK(d, n, m.regions[1])
       [] OTHER -> Len(m.regions) = 0
DfgRegionOK(d, p, r) ==
  LET ch == Exported(d, p) kids == Children(d, p) IN
  /\ r.kind = "DATA_FLOW" /\ Len(kids) >= 2
  /\ Len(r.sources) = NVal(Op(d, kids[1]), "out")            \* Input  -> region sources
  /\ Len(r.targets) = NVal(Op(d, kids[2]), "in")             \* Output -> region targets
  /\ Len(r.children) = Len(ch)                               \* constants are inlined into their loads
  /\ r.sig = Fn(d.rows[kids[1] + 1].a, d.rows[kids[2] + 1].a) \* region type: the Input's row to the Output's row
  /\ \A k \in 1..Len(ch) : NodeOK(d, ch[k], r.children[k])
CfgRegionOK(d, p, r) ==
  LET ch == Exported(d, p) kids == Children(d, p) IN
  /\ r.kind = "CONTROL_FLOW" /\ Len(r.sources) = 1 /\ Len(r.targets) = 1
  /\ Len(kids) >= 2 /\ r.sig = Fn(d.rows[kids[1] + 1].a, d.rows[kids[2] + 1].a)   \* entry block inputs to the exit block's outputs
  /\ Len(r.children) = Len(ch)                               \* blocks keep their order
  /\ \A k \in 1..Len(ch) : NodeOK(d, ch[k], r.children[k])
ModuleOK(d, r) ==
  LET ch == Exported(d, 0) IN
  /\ Op(d, 0).op = "Module" /\ r.kind = "MODULE"
  /\ Len(r.children) = Len(ch) /\ \A k \in 1..Len(ch) : NodeOK(d, ch[k], r.children[k])
RegionsMirrorHierarchy(d, exp) == ModuleOK(d, exp)

(* ---- which HUGR port every listed model port stands for ---------------------------------------- *)
RECURSIVE NodePorts(_, _, _), DfgRegionPorts(_, _, _), CfgRegionPorts(_, _, _)
P(n, dir, off, name) == [n |-> n, dir |-> dir, off |-> off, name |-> name]
NodePorts(d, n, m) ==
  LET op == Op(d, n) IN
       {P(n, "in", i - 1, m.inputs[i]) : i \in 1..Len(m.inputs)} \cup {P(n, "out", j - 1, m.outputs[j]) : j \in 1..Len(m.outputs)}
  \cup (CASE HasInner(op) -> DfgRegionPorts(d, n, m.regions[1])
          [] op.op = "Conditional" -> UNION {DfgRegionPorts(d, Children(d, n)[k], m.regions[k]) : k \in 1..Len(m.regions)}
          [] op.op = "CFG" -> CfgRegionPorts(d, n, m.regions[1])
          [] OTHER -> {})
DfgRegionPorts(d, p, r) ==
  LET ch == Exported(d, p) kids == Children(d, p) IN
       {P(kids[1], "out", i - 1, r.sources[i]) : i \in 1..Len(r.sources)} \cup {P(kids[2], "in", i - 1, r.targets[i]) : i \in 1..Len(r.targets)}
  \cup UNION {NodePorts(d, ch[k], r.children[k]) : k \in 1..Len(ch)}
CfgRegionPorts(d, p, r) ==
  LET ch == Exported(d, p) kids == Children(d, p) IN
       {P(kids[1], "in", 0, r.sources[1])}                                \* the control port that enters the entry block
  \cup {P(kids[2], "in", 0, r.targets[1])}                                \* the exit block
  \cup UNION {NodePorts(d, ch[k], r.children[k]) : k \in 1..Len(ch)}
AllPorts(d, exp) == UNION {NodePorts(d, Exported(d, 0)[k], exp.children[k]) : k \in 1..Len(exp.children)}

(* two listed ports carry the same link name exactly when an edge of the HUGR joins them (every link is a star) *)
PortId(x) == <<x.n, x.dir, x.off>>
EdgeBetween(d, a, b) ==    \* a, b port ids
  \E e \in Edges(d) : \/ (a[2] = "out" /\ b[2] = "in" /\ Src(d, e) = <<a[1], a[3]>> /\ Dst(d, e) = <<b[1], b[3]>>)
                      \/ (b[2] = "out" /\ a[2] = "in" /\ Src(d, e) = <<b[1], b[3]>> /\ Dst(d, e) = <<a[1], a[3]>>)
LinkPartition(d, exp) ==
  LET PS == AllPorts(d, exp) names == {x.name : x \in PS} ids == {PortId(x) : x \in PS} IN
  /\ \A i \in ids : Cardinality({x.name : x \in {y \in PS : PortId(y) = i}}) = 1          \* one name per port
  /\ \A e \in Edges(d) :                                                               \* joined ports share their name
       LET a == <<Src(d, e)[1], "out", Src(d, e)[2]>> b == <<Dst(d, e)[1], "in", Dst(d, e)[2]>> IN
       (a \in ids /\ b \in ids) => {x.name : x \in {y \in PS : PortId(y) = a}} = {x.name : x \in {y \in PS : PortId(y) = b}}
  /\ \A nm \in names :                                                                 \* ... and only joined ports do
       LET S == {PortId(x) : x \in {y \in PS : y.name = nm}} IN
       \E h \in S : \A q \in S : q = h \/ EdgeBetween(d, h, q)
(* consequently a link never needs several ports on both sides *)
Hyperedge(d, exp) ==
  LET PS == AllPorts(d, exp) IN
  \A nm \in {x.name : x \in PS} :
     LET S == {PortId(x) : x \in {y \in PS : y.name = nm}} IN
     Cardinality({q \in S : q[2] = "out"}) <= 1 \/ Cardinality({q \in S : q[2] = "in"}) <= 1

(* ---- symbols ------------------------------------------------------------------------------------ *)
RECURSIVE NodeCallees(_, _, _), RegionCallees(_, _, _, _)
(* <<hugr node, callee symbol>> for every call / function load *)
NodeCallees(d, n, m) ==
  LET op == Op(d, n) IN
  (IF op.op \in {"Call", "LoadFunction"} THEN {<<n, m.callee>>} ELSE {})
  \cup (CASE HasInner(op) -> RegionCallees(d, n, m.regions[1], 1)
          [] op.op = "Conditional" -> UNION {RegionCallees(d, Children(d, n)[k], m.regions[k], 1) : k \in 1..Len(m.regions)}
          [] op.op = "CFG" -> RegionCallees(d, n, m.regions[1], 1)
          [] OTHER -> {})
RegionCallees(d, p, r, x) == UNION {NodeCallees(d, Exported(d, p)[k], r.children[k]) : k \in 1..Len(r.children)}
FuncSource(d, n) ==     \* the node the static function edge of n comes from
  LET es == {e \in Edges(d) : Dst(d, e) = <<n, NVal(Op(d, n), "in")>>} IN IF es = {} THEN -1 ELSE Src(d, CHOOSE e \in es : TRUE)[1]
SymbolsResolve(d, exp) ==
  LET top == Exported(d, 0)
      symOf == [k \in 1..Len(top) |-> exp.children[k].sym]
      posOf(f) == CHOOSE k \in 1..Len(top) : top[k] = f IN
  \A c \in RegionCallees(d, 0, exp, 1) :
     LET f == FuncSource(d, c[1]) IN
     /\ f >= 0 /\ Op(d, f).op \in {"FuncDefn", "FuncDecl"}
     /\ (Par(d, f) = 0 => c[2] = symOf[posOf(f)])                 \* the applied symbol is the symbol of that definition / declaration
     /\ c[2] # ""

(* ---- order hints --------------------------------------------------------------------------------- *)
RECURSIVE NodeHintsOK(_, _, _), RegionHintsOK(_, _, _)
IsOrderEdge(d, e) == PortKind(Op(d, Src(d, e)[1]), "out", Src(d, e)[2])[1] = "Order"
RegionHintsOK(d, p, r) ==
  LET ch == Exported(d, p)
      keyOf(x) == r.children[CHOOSE k \in 1..Len(ch) : ch[k] = x].key IN
  /\ \A e \in Edges(d) :
       LET a == Src(d, e)[1] b == Dst(d, e)[1] IN
       (IsOrderEdge(d, e) /\ Par(d, a) = p /\ Par(d, b) = p /\ Op(d, a).op # "Input" /\ Op(d, b).op # "Output") =>
          /\ keyOf(a) # -1 /\ keyOf(b) # -1 /\ keyOf(a) # keyOf(b)
          /\ <<keyOf(a), keyOf(b)>> \in ToSetM(r.hints)
  /\ \A k \in 1..Len(ch) : NodeHintsOK(d, ch[k], r.children[k])
NodeHintsOK(d, n, m) ==
  LET op == Op(d, n) IN
  CASE HasInner(op) -> RegionHintsOK(d, n, m.regions[1])
    [] op.op = "Conditional" -> \A k \in 1..Len(m.regions) : RegionHintsOK(d, Children(d, n)[k], m.regions[k])
    [] op.op = "CFG" -> \A k \in 1..Len(Exported(d, n)) : NodeHintsOK(d, Exported(d, n)[k], m.regions[1].children[k])
    [] OTHER -> TRUE
OrderHints(d, exp) == \A k \in 1..Len(exp.children) : NodeHintsOK(d, Exported(d, 0)[k], exp.children[k])

ExportFailing(d, exp) ==
  IF ~RegionsMirrorHierarchy(d, exp) THEN {"RegionsMirrorHierarchy/PortsAreValuePorts/MetadataCarried/SymbolParams/ConstInlined/Signatures"}
  ELSE (IF LinkPartition(d, exp) THEN {} ELSE {"LinkPartition"}) \cup (IF Hyperedge(d, exp) THEN {} ELSE {"Hyperedge"})
       \cup (IF SymbolsResolve(d, exp) THEN {} ELSE {"SymbolsResolve"}) \cup (IF OrderHints(d, exp) THEN {} ELSE {"OrderHints"})
=============================================================================
