------------------------------- MODULE DocCheck -------------------------------
(* C->S for documents: TLC reads the raw wire documents the implementation emitted (one JSON file, an array of
   [name, nodes, edges]) and judges each with HugrValidity.  One initial state per document; the verdicts are
   printed as JSON lines. *)
EXTENDS HugrValidity, Json, IOUtils
Docs == JsonDeserialize(IOEnv.DOCS_FILE)
VARIABLE i
Init == i \in 1..Len(Docs)
Next == UNCHANGED i
Verdict == PrintT(ToJson([name |-> Docs[i].name, idx |-> i, builder |-> Builder(Docs[i]), user |-> User(Docs[i]),
                          failing |-> Failing(Docs[i])]))
=============================================================================
