---------------------------- MODULE ExtensionDefs ----------------------------
(* hugr.ext.Extension as a state machine: an extension is built by adding type definitions, operation
   definitions and values; it can be written to JSON and read back.  Requirement sets are sets.
   definitions:  typedef [name, description, params, bspec]
                 opdef   [name, description, misc, sig (a type scheme [params, body] or NoSig), binary]
                 value   [name, val] *)
EXTENDS HugrTerms

CONSTANTS TypeDefs, OpDefs, Values        \* pools of definitions the actions draw from
NoSig == [none |-> TRUE]
HasSig(d) == ~Has(d.sig, "none")

VARIABLES ext          \* [name, version, reqs, types, ops, values]; types/ops/values are functions name -> definition
vars == <<ext>>

ReqSet(body) == body.runtime_reqs                                    \* requirement sets are sets in this module
WithReqs(sig, S) == [sig EXCEPT !.body.runtime_reqs = @ \cup S]
NormSig(sig) == WithReqs(sig, {})

Versions == {"1.2.3", "2.0.0-rc.1", "1.0.0+build.17"}                \* semantic versions incl. a pre-release tag and build metadata
Init == \E v \in Versions : ext = [name |-> "verif.ext", version |-> v, reqs |-> {"logic", "prelude"}, types |-> <<>>, ops |-> <<>>, values |-> <<>>]

AddTypeDef(d) == ext' = [ext EXCEPT !.types = (d.name :> d) @@ [n \in DOMAIN @ \ {d.name} |-> @[n]]]
(* add_op_def: the owning extension is added to the signature's requirements; the definition reports it as owner *)
Owned(e, d) == [d EXCEPT !.sig = IF HasSig(d) THEN WithReqs(d.sig, {e.name}) ELSE d.sig] @@ [owner |-> e.name]
AddOpDef(d) == ext' = [ext EXCEPT !.ops = (d.name :> Owned(ext, d)) @@ [n \in DOMAIN @ \ {d.name} |-> @[n]]]
AddValue(v) == ext' = [ext EXCEPT !.values = (v.name :> v) @@ [n \in DOMAIN @ \ {v.name} |-> @[n]]]

Next == \/ \E d \in TypeDefs : d.name \notin DOMAIN ext.types /\ AddTypeDef(d)
        \/ \E d \in OpDefs : d.name \notin DOMAIN ext.ops /\ AddOpDef(d)
        \/ \E v \in Values : v.name \notin DOMAIN ext.values /\ AddValue(v)
Spec == Init /\ [][Next]_vars

(* ---- JSON ------------------------------------------------------------------------------ *)
ExtToJson(e) ==
  [version |-> e.version, name |-> e.name, runtime_reqs |-> e.reqs,
   types |-> [n \in DOMAIN e.types |-> [extension |-> e.name, name |-> n, description |-> e.types[n].description,
                                        params |-> e.types[n].params, bound |-> e.types[n].bspec]],
   values |-> [n \in DOMAIN e.values |-> [extension |-> e.name, name |-> n, typed_value |-> e.values[n].val]],
   operations |-> [n \in DOMAIN e.ops |-> [extension |-> e.name, name |-> n, description |-> e.ops[n].description,
                                           misc |-> e.ops[n].misc, signature |-> e.ops[n].sig, binary |-> e.ops[n].binary]]]
ExtFromJson(j) ==
  [name |-> j.name, version |-> j.version, reqs |-> j.runtime_reqs,
   types |-> [n \in DOMAIN j.types |-> [name |-> n, description |-> j.types[n].description, params |-> j.types[n].params, bspec |-> j.types[n].bound]],
   ops |-> [n \in DOMAIN j.operations |->
              [name |-> n, description |-> j.operations[n].description, misc |-> j.operations[n].misc, binary |-> j.operations[n].binary,
               sig |-> IF Has(j.operations[n].signature, "none") THEN NoSig ELSE WithReqs(j.operations[n].signature, {j.name}),
               owner |-> j.name]],
   values |-> [n \in DOMAIN j.values |-> [name |-> n, val |-> j.values[n].typed_value]]]

(* ---- C10 ------------------------------------------------------------------------------- *)
OwnerInReqs == \A n \in DOMAIN ext.ops :
                  /\ ext.ops[n].owner = ext.name
                  /\ HasSig(ext.ops[n]) => ext.name \in ReqSet(ext.ops[n].sig.body)
RoundTrip   == ExtFromJson(ExtToJson(ext)) = ext /\ ExtToJson(ExtFromJson(ExtToJson(ext))) = ExtToJson(ext)
=============================================================================
