--------------------------- MODULE MC_ShotResults ---------------------------
(* Multi-shot aggregation as a pure function of the list of shots: one initial state per
   (list of shots, strict_names, strict_lengths); the invariant prints the expected result. *)
EXTENDS Shots, Json, SequencesExt
CONSTANTS MaxShots, MaxEntries
VARIABLES shots, sn, sl
I(n) == [k |-> "int",  v |-> n, vs |-> <<>>]
B(n) == [k |-> "bool", v |-> n, vs |-> <<>>]
X(n) == [k |-> "bad",  v |-> n, vs |-> <<>>]
L(s) == [k |-> "list", v |-> 0, vs |-> s]
T(n, i) == [name |-> n, idx |-> i]
PoolTags == {T("c", -1), T("c", 1), T("d", -1)}
PoolVals == {I(1), L(<<I(0), B(1)>>), X(0)}
Entry == PoolTags \X PoolVals
ShotPool == UNION {[1..n -> Entry] : n \in 0..MaxEntries}
RInit == /\ shots \in UNION {[1..n -> ShotPool] : n \in 0..MaxShots}
         /\ sn \in BOOLEAN /\ sl \in BOOLEAN
         /\ entries = <<>> /\ regs = <<>> /\ err = FALSE
RNext == UNCHANGED <<vars, shots, sn, sl>>
(* laws of the aggregation *)
AggLaws ==
  LET r == Bitstrings(shots, sn, sl) IN
  /\ (r.res = "ok" /\ sn) => \A p \in r.regs : Len(p[2]) = Len(shots)       \* every register in every shot
  /\ (r.res = "ok" /\ sl) => \A p \in r.regs : \A i, j \in 1..Len(p[2]) : Len(p[2][i]) = Len(p[2][j])
  /\ (r.res = "ok") => \A p \in r.regs : Len(p[2]) = Cardinality({i \in 1..Len(shots) : p[1] \in DOMAIN RegsOf(shots[i])})
EmitInv == PrintT(ToJson([shots |-> shots, sn |-> sn, sl |-> sl,
                          bitstrings |-> Bitstrings(shots, sn, sl),
                          collated |-> [i \in 1..Len(shots) |-> ObsCollate(shots[i])]]))
=============================================================================
