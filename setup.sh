#!/bin/bash
# Offline setup: install jsonschema (pure python) for /venv's interpreter into /verif/.deps; parse all specs.
set -e
cd "$(dirname "$0")"
mkdir -p .deps .work evidence
if ! PYTHONPATH=/verif/.deps /venv/bin/python -c "import jsonschema" 2>/dev/null; then
  /venv/bin/python -m pip install --quiet --no-index --find-links /opt/veriftools/wheels --target /verif/.deps jsonschema || echo "WARN: jsonschema not installed"
fi
cd spec
fail=0
for f in *.tla; do
  out=$(java -cp /opt/veriftools/tla/tla2tools.jar:/opt/veriftools/tla/CommunityModules-deps.jar tla2sany.SANY "$f" 2>&1) || true
  if echo "$out" | grep -qE "\*\*\* Errors|Fatal errors|Could not"; then echo "SANY FAILED: $f"; echo "$out" | tail -15; fail=1; fi
done
exit $fail
