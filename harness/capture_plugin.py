"""pytest plugin (lives in /verif, nothing in /repo is modified): runs the repository's own builder tests with the
absent `hugr validate` binary replaced by a recorder, and a stand-in for the syrupy `snapshot` fixture, so that the
tests run to completion and hand over every document they would have sent to the reference validator.

usage: cd /repo && VERIF_CAPTURE_DIR=<dir> python -m pytest -p harness.capture_plugin -q -p no:cacheprovider hugr-py/tests
"""
from __future__ import annotations

import json
import os
import sys

import pytest

_OUT = os.environ.get("VERIF_CAPTURE_DIR")
_current = {"id": "?"}
_count = {"n": 0}


class _Snap:
    """Stand-in for syrupy's SnapshotAssertion: records what it is compared with, always equal."""

    def __init__(self):
        self.seen = []

    def __eq__(self, other):
        self.seen.append(other)
        return True

    def __ne__(self, other):
        return False


@pytest.fixture
def snapshot(request):
    s = _Snap()
    yield s
    if _OUT and s.seen:
        p = os.path.join(_OUT, f"snap_{_count['n']:04d}.json")
        _count["n"] += 1
        with open(p, "w") as f:
            json.dump({"test": request.node.nodeid, "dot": [x for x in s.seen if isinstance(x, str)]}, f)


def _recorder(serial: bytes, cmd):
    if not _OUT:
        return
    p = os.path.join(_OUT, f"doc_{_count['n']:04d}.json")
    _count["n"] += 1
    kind = "hugr-json" if "--hugr-json" in cmd else "envelope"
    with open(p, "w") as f:
        json.dump({"test": _current["id"], "kind": kind, "cmd": cmd[1:], "payload": serial.decode("utf-8", errors="replace")}, f)


def pytest_runtest_setup(item):
    _current["id"] = item.nodeid
    for name, mod in list(sys.modules.items()):
        if hasattr(mod, "_run_hugr_cmd") and getattr(mod, "_run_hugr_cmd") is not _recorder:
            mod._run_hugr_cmd = _recorder
