"""C->S for documents: hand raw wire documents to TLC (DocCheck.tla / HugrValidity.tla) and collect the verdicts.
The only transformation between the implementation's JSON and TLC is the structure-preserving map N (DESIGN A.1)."""
from __future__ import annotations

import json
import os
import subprocess
import sys
from pathlib import Path

from .common import REPO
from .tlc import VERIF, MachineryError, run_tlc

OPAQUE_KEYS = ("v",)       # CustomConst payloads


def N(x, key=None, parent_kind=None):
    """null in integer positions (edge offsets, BoundedNat.bound) -> -1, other null -> "__null__";
    non-32-bit-integer numbers -> "#num:..."; empty objects -> "#obj:{}" (they only occur in opaque payloads)."""
    if x is None:
        return -1 if key in ("bound",) and parent_kind == "BoundedNat" else "__null__"
    if isinstance(x, bool):
        return x
    if isinstance(x, int):
        return x if -2**31 <= x < 2**31 else f"#num:{x}"
    if isinstance(x, float):
        return f"#num:{x!r}"
    if isinstance(x, dict):
        if not x:
            return "#obj:{}"
        pk = x.get("tp") if x.get("tp") == "BoundedNat" else None
        return {k: N(v, k, pk) for k, v in x.items()}
    if isinstance(x, list):
        return [N(v) for v in x]
    return x


def norm_doc(name: str, doc: dict) -> dict:
    edges = [[[e[0][0], -1 if e[0][1] is None else e[0][1]], [e[1][0], -1 if e[1][1] is None else e[1][1]]] for e in doc["edges"]]
    return {"name": name, "nodes": [N(n) for n in doc["nodes"]], "edges": edges}


def judge(docs: list, wd: Path, tag: str = "docs", heap: str = "6g", timeout: int = 2400) -> tuple:
    """docs: [(name, raw document dict)].  Returns ({name: verdict}, TLCResult)."""
    f = wd / f"{tag}.json"
    f.write_text(json.dumps([norm_doc(n, d) for n, d in docs]))
    cfg = "INIT Init\nNEXT Next\nINVARIANT Verdict\nCHECK_DEADLOCK FALSE\n"
    res = run_tlc("DocCheck", cfg, wd, workers=1, env={"DOCS_FILE": str(f)}, heap=heap, timeout=timeout)
    if res.exit_code != 0:
        raise MachineryError(f"DocCheck failed: exit {res.exit_code}\n{res.error_text}")
    out = {}
    for ln in res.lines:
        if isinstance(ln, dict) and "failing" in ln:
            out[ln["name"]] = ln
    if len(out) != len(docs):
        raise MachineryError(f"DocCheck judged {len(out)} of {len(docs)} documents")
    return out, res


def capture_repo_tests(wd: Path) -> list:
    """Run the repository's test-suite under the capture plugin; returns [(test id, kind, document dict), ...] and DOT snapshots."""
    cap = wd / "capture"
    cap.mkdir(exist_ok=True)
    env = dict(os.environ, VERIF_CAPTURE_DIR=str(cap), PYTHONPATH=f"{VERIF}:{VERIF}/.deps", PYTHONDONTWRITEBYTECODE="1", PYTHONHASHSEED="0")
    p = subprocess.run([sys.executable, "-m", "pytest", "-p", "harness.capture_plugin", "-q", "-p", "no:cacheprovider", "--timeout=900",
                        "--continue-on-collection-errors", "hugr-py/tests" if False else "."], cwd=str(REPO), env=env, capture_output=True, text=True)
    docs, snaps = [], []
    for f in sorted(cap.glob("doc_*.json")):
        r = json.loads(f.read_text())
        if r["kind"] == "hugr-json":
            docs.append((r["test"], "hugr", json.loads(r["payload"])))
        else:
            payload = r["payload"]
            body = json.loads(payload[10:])
            for k, m in enumerate(body["modules"]):
                docs.append((f"{r['test']}#m{k}", "package-module", m))
    for f in sorted(cap.glob("snap_*.json")):
        snaps.append(json.loads(f.read_text()))
    if not docs:
        raise MachineryError(f"no documents captured from the repository's tests:\n{p.stdout[-1500:]}\n{p.stderr[-1500:]}")
    return docs, snaps, p.stdout[-300:]
