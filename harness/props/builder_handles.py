"""C16 (b): handles returned by the builders know their operation's number of value outputs.
Programs come from the C01 generator, which records (entry point, returned handle, expected number of outputs) from its own
type book-keeping (HugrWire!NumOut of the op / the row given to set_outputs)."""
from __future__ import annotations

from ..common import Ctx


def run(ctx: Ctx) -> None:
    from ..progen import generate
    quick = ctx.tier == "quick"
    nprog = 120 if quick else 1500
    seen = {}
    total = 0
    for k in range(nprog):
        seed = ctx.seed * 7919 + k
        try:
            h, g = generate(seed, 30)
        except Exception:  # noqa: BLE001  (builder refusals on well-formed programs are C01's business)
            continue
        for how, node, want in g.handles:
            total += 1
            ctx.evaluations += 1
            seen[how.split(":")[0]] = seen.get(how.split(":")[0], 0) + 1
            try:
                got = [p.offset for p in node]
                ok = got == list(range(want)) and all(p.node.idx == node.idx for p in node)
                # integer indexing agrees with the count
                if want:
                    ok = ok and node[want - 1].offset == want - 1 and node[-1].offset == want - 1
                try:
                    node[want]
                    ok = False
                except IndexError:
                    pass
                obs = got
            except ValueError as e:
                ok, obs = False, f"ValueError: {e}"
            if want == 0 or "insert" in how or "conditional" in how or "cfg" in how or "tail" in how:
                ctx.nontriv(f"{seed}:{how}:{node.idx}")
            if not ok:
                ctx.violation({"how": how.split(":")[0], "want": want}, {"generator_seed": seed, "entry_point": how, "node": node.idx},
                              list(range(want)), obs, clause="handle enumerates NumOut(op) outputs")
    ctx.note("builder_handles_checked", total)
    ctx.note("builder_handles_by_entry_point", seen)
    ctx.legs["S2C builder handles"] = {"programs": nprog, "handles": total}
