"""C10 — extension definitions round-trip; bundled standard library matches the specification (spec: ExtensionDefs.tla)."""
from __future__ import annotations

import json
import pkgutil

from .. import wire as W
from ..common import REPO, Ctx, tlc_must_hold
from ..tlc import MachineryError, cleanup, run_tlc, workdir

MISC = {"none": {}, "m1": {"a": [1, 2], "b": {"c": None}, "ü": "x"}}


from hugr import tys as tys_mod  # noqa: E402


def build_typedef(d):
    from hugr import ext
    b = d["bspec"]
    bound = ext.ExplicitBound(W._bound(b["bound"])) if b["b"] == "Explicit" else ext.FromParamsBound(list(b["indices"]))
    return ext.TypeDef(d["name"], d["description"], [W.build_param(W.from_tla(p)) for p in d["params"]], bound)


def build_sig(s):
    from hugr import tys
    body = s["body"]
    return tys.PolyFuncType([W.build_param(W.from_tla(p)) for p in s["params"]],
                            tys.FunctionType(W.build_row(body["input"]), W.build_row(body["output"]), list(body["runtime_reqs"])))


def build_opdef(d):
    from hugr import ext
    sig = None if "none" in d["sig"] else build_sig(d["sig"])
    return ext.OpDef(d["name"], ext.OpDefSig(sig, binary=d["binary"]), d["description"], dict(MISC[d["misc"]]))


def _value(v):
    """wire-shaped value -> Python value through the constructors (extension constants are NOT obtained by decoding: the decoder is
    one of the two directions under test)"""
    from hugr import val
    if v["v"] == "Extension":
        return val.Extension(v["value"]["c"], W.dec_type(v["typ"]), v["value"]["v"], list(v["extensions"]))
    if v["v"] == "Tuple":
        return val.Tuple(*[_value(x) for x in v["vs"]])
    return W.dec_value(v)


def build_value(d):
    from hugr import ext
    return ext.ExtensionValue(d["name"], _value(W.from_tla(d["val"])))


def project(e) -> dict:
    """Extension object, attribute by attribute, in ExtensionDefs' vocabulary."""
    from hugr import ext
    types = []
    for n, t in e.types.items():
        b = t.bound
        bs = {"b": "Explicit", "bound": b.bound.value} if isinstance(b, ext.ExplicitBound) else {"b": "FromParams", "indices": list(b.indices)}
        types.append({"name": t.name, "key": n, "description": t.description, "params": [W.proj_param(p) for p in t.params], "bspec": bs,
                      "owner": t.get_extension().name})
    ops = []
    for n, o in e.operations.items():
        pf = o.signature.poly_func
        sig = {"none": True} if pf is None else {"params": [W.proj_param(p) for p in pf.params],
                                                  "body": {"t": "G", "input": [W.proj_type(t) for t in pf.body.input],
                                                           "output": [W.proj_type(t) for t in pf.body.output],
                                                           "runtime_reqs": sorted(set(pf.body.runtime_reqs))}}
        ops.append({"name": o.name, "key": n, "description": o.description, "misc": o.misc, "sig": sig, "binary": o.signature.binary,
                    "owner": o.get_extension().name})
    vals = [{"name": v.name, "key": n, "val": W.proj_value(v.val), "owner": v.get_extension().name} for n, v in e.values.items()]
    return {"name": e.name, "version": str(e.version), "reqs": sorted(e.runtime_reqs), "types": sorted(types, key=lambda x: x["name"]),
            "ops": sorted(ops, key=lambda x: x["name"]), "values": sorted(vals, key=lambda x: x["name"])}


def expected(ej) -> dict:
    def tsig(s):
        if "none" in s:
            return {"none": True}
        b = s["body"]
        return {"params": W.from_tla(s["params"]), "body": {"t": "G", "input": b["input"], "output": b["output"],
                                                            "runtime_reqs": sorted(b["runtime_reqs"])}}
    return {"name": ej["name"], "version": ej["version"], "reqs": sorted(ej["reqs"]),
            "types": sorted(({"name": t["name"], "key": t["name"], "description": t["description"], "params": W.from_tla(t["params"]),
                              "bspec": t["bspec"], "owner": ej["name"]} for t in ej["types"]), key=lambda x: x["name"]),
            "ops": sorted(({"name": o["name"], "key": o["name"], "description": o["description"], "misc": MISC[o["misc"]], "sig": tsig(o["sig"]),
                            "binary": o["binary"], "owner": o["owner"]} for o in ej["ops"]), key=lambda x: x["name"]),
            "values": sorted(({"name": v["name"], "key": v["name"], "val": v["val"], "owner": ej["name"]} for v in ej["values"]),
                             key=lambda x: x["name"])}


def diff(a, b):
    a, b = W.canon(W.norm_t(a)), W.canon(W.norm_t(b))
    if a == b:
        return None
    for k in a:
        if a[k] != b.get(k):
            if isinstance(a[k], list) and isinstance(b.get(k), list):
                for x, y in zip(a[k], b[k]):
                    if x != y:
                        return f"{k}: {json.dumps(x)[:300]} vs {json.dumps(y)[:300]}"
                return f"{k}: lengths {len(a[k])} vs {len(b[k])}"
            return f"{k}: {json.dumps(a[k])[:200]} vs {json.dumps(b.get(k))[:200]}"
    return "differs"


def run(ctx: Ctx) -> None:
    from hugr import ext
    from hugr.ext import Extension
    quick = ctx.tier == "quick"
    ctx.rule = ("TLC explores the state graph of building an extension from pools of type definitions (explicit / from-params), operation "
                "definitions (mono, polymorphic with pre-existing requirements, binary-only, signature+binary) and values, in every order, "
                "checking OwnerInReqs and RoundTrip; each transition's path is replayed on a real Extension, projected attribute by "
                "attribute, serialized, reloaded and re-serialized. Std library: bundled bytes = specification bytes, every file loads "
                "and round-trips, typed helpers denote existing definitions with matching parameters. non-trivial = >= 2 definitions added.")
    ctx.assumptions = ["no lowering functions", "the byte-for-byte clause is a binding check on repository artefacts, not model checked"]
    wd = workdir("c10")
    try:
        pools = ("CONSTANT TypeDefs <- PoolT\nCONSTANT OpDefs <- PoolO\nCONSTANT Values <- PoolV\n")
        cfg = "INIT MCInit\nNEXT MCNext\n" + pools + f"CONSTANT MaxAdds = {3 if ctx.tier == 'quick' else 5}\nCONSTRAINT Small\n" + "INVARIANT OwnerInReqs\nINVARIANT RoundTrip\nVIEW View\nACTION_CONSTRAINT Emit\nCHECK_DEADLOCK FALSE\n"
        n = [0]

        def sink(ln):
            if not isinstance(ln, dict) or "ext" not in ln:
                return
            n[0] += 1
            ctx.evaluations += 1
            hist = ln["hist"]
            if len(hist) >= 2:
                ctx.nontriv(hist)
            if len(hist) == 3:
                ctx.sample({"adds": [(e["a"], e["d"]["name"]) for e in hist]})
            sig = {"last": hist[-1]["a"], "def": hist[-1]["d"]["name"]}
            try:
                e = Extension("verif.ext", ext.Version.parse(ln["ext"]["version"]), runtime_reqs={"logic", "prelude"})
                for ev in hist:
                    e.to_json()                        # the extension is serialized between the additions too: ToJson is a function of the state
                    if ev["a"] == "AddTypeDef":
                        e.add_type_def(build_typedef(ev["d"]))
                    elif ev["a"] == "AddOpDef":
                        od = e.add_op_def(build_opdef(ev["d"]))
                        if od.get_extension() is not e:
                            ctx.violation(dict(sig, what="owner"), ln, "owner = extension", "other", clause="ExtensionDefs!OwnerInReqs")
                    else:
                        e.add_extension_value(build_value(ev["d"]))
                exp = expected(ln["ext"])
                d = diff(exp, project(e))
                if d:
                    ctx.violation(dict(sig, what="state after adds"), ln, "ExtensionDefs state", d, clause="ExtensionDefs!Next")
                    return
                j1 = json.loads(e.to_json())
                e2 = Extension.from_json(e.to_json())
                d = diff(exp, project(e2))
                if d:
                    ctx.violation(dict(sig, what="from_json(to_json) field by field"), ln, "same extension", d, clause="ExtensionDefs!RoundTrip")
                    return
                j2 = json.loads(e2.to_json())
                if W.canon(j1) != W.canon(j2):
                    ctx.violation(dict(sig, what="re-serialization"), ln, "same document", diff(j1, j2), clause="ExtensionDefs!RoundTrip")
                    return
                # FromJson builds a fresh extension every time: what is done to one loaded copy does not show in the next
                text = e.to_json()
                first = Extension.from_json(text)
                first.add_type_def(ext.TypeDef("AddedToTheFirstCopy", "", [], ext.ExplicitBound(tys_mod.TypeBound.Copyable)))
                second = Extension.from_json(text)
                d = diff(exp, project(second))
                if d or second is first:
                    ctx.violation(dict(sig, what="second load of the same document"), ln, "the document's extension", d or "the same object as the first load",
                                  clause="ExtensionDefs!FromJson (a function of the document)")
                    return
                for o in e.operations.values():
                    pf = o.signature.poly_func
                    if pf is not None and e.name not in pf.body.runtime_reqs:
                        ctx.violation(dict(sig, what="owner in requirements"), ln, e.name, list(pf.body.runtime_reqs), clause="ExtensionDefs!OwnerInReqs")
            except MachineryError:
                raise
            except Exception as ex:  # noqa: BLE001
                ctx.violation(dict(sig, what=f"exception {type(ex).__name__}"), ln, "no exception", repr(ex)[:300], clause="implementation raised")
        res = run_tlc("MC_ExtensionDefs", cfg, wd, workers=1, line_sink=sink)
        tlc_must_hold(ctx, "M+S2C extension building", res, "ExtensionDefs model")
        ctx.exhaustive = True
        if n[0] < 100:
            raise MachineryError(f"only {n[0]} transitions emitted")
    finally:
        cleanup(wd)
    _std_library(ctx)


def _std_library(ctx: Ctx) -> None:
    from hugr import tys
    from hugr.ext import Extension
    spec_dir = REPO / "specification" / "std_extensions"
    files = sorted(p for p in spec_dir.rglob("*.json"))
    if len(files) < 8:
        raise MachineryError("specification/std_extensions not found")
    for f in files:
        rel = f.relative_to(spec_dir)
        ctx.evaluations += 1
        ctx.nontriv(str(rel))
        try:
            bundled = pkgutil.get_data("hugr.std", f"_json_defs/{rel.as_posix()}")
        except (FileNotFoundError, OSError):
            bundled = None
        if bundled != f.read_bytes():
            ctx.violation({"std": str(rel), "what": "bundled bytes"}, {"file": str(rel)}, "identical bytes", "missing" if bundled is None else "differs",
                          clause="bundled = specification/std_extensions")
            continue
        try:
            e = Extension.from_json(f.read_text())
            j1 = json.loads(f.read_text())
            j2 = json.loads(e.to_json())
            e2 = Extension.from_json(e.to_json())
            if diff(project(e), project(e2)):
                ctx.violation({"std": str(rel), "what": "round trip"}, {"file": str(rel)}, "same", diff(project(e), project(e2)), clause="ExtensionDefs!RoundTrip")
            # what the file declares is what the loaded object holds
            for kind, key in (("types", "types"), ("operations", "operations"), ("values", "values")):
                if set(j1[key]) != set(getattr(e, kind)):
                    ctx.violation({"std": str(rel), "what": f"{kind} present"}, {"file": str(rel)}, sorted(j1[key]), sorted(getattr(e, kind)), clause="FromJson")
            if j1["name"] != e.name or j1["version"] != str(e.version) or set(j1.get("runtime_reqs", [])) != set(e.runtime_reqs):
                ctx.violation({"std": str(rel), "what": "header"}, {"file": str(rel)}, j1["name"], e.name, clause="FromJson")
            for n, o in e.operations.items():
                if o.signature.poly_func is not None and e.name not in o.signature.poly_func.body.runtime_reqs:
                    ctx.violation({"std": str(rel), "what": "owner in requirements"}, {"op": n}, e.name, list(o.signature.poly_func.body.runtime_reqs), clause="OwnerInReqs")
                if o.get_extension() is not e:
                    ctx.violation({"std": str(rel), "what": "owner"}, {"op": n}, e.name, "other", clause="OwnerInReqs")
            # fixed point of the document modulo what loading adds (owner in requirements)
            j3 = json.loads(e2.to_json())
            if W.canon(j2) != W.canon(j3):
                ctx.violation({"std": str(rel), "what": "re-serialization"}, {"file": str(rel)}, "fixed point", diff(j2, j3), clause="ExtensionDefs!RoundTrip")
        except Exception as ex:  # noqa: BLE001
            ctx.violation({"std": str(rel), "what": f"exception {type(ex).__name__}"}, {"file": str(rel)}, "loads", repr(ex)[:300], clause="loads")
    # ---- typed helpers denote definitions that exist in the published files, with matching parameters
    import hugr.std.collections.array as A
    import hugr.std.collections.list as L
    import hugr.std.collections.static_array as SA
    import hugr.std.float as F
    import hugr.std.int as I
    import hugr.std.logic as LG
    import hugr.std.prelude as P
    from hugr import ops as O

    def spec_json(name):
        return json.loads((spec_dir / (name.replace(".", "/") + ".json")).read_text())

    def kinds_match(args, params):
        if len(args) != len(params):
            return False
        for a, p in zip(args, params):
            if isinstance(a, tys.TypeTypeArg) and p["tp"] != "Type":
                return False
            if isinstance(a, tys.BoundedNatArg) and p["tp"] != "BoundedNat":
                return False
            if isinstance(a, tys.SequenceArg) and p["tp"] not in ("List", "Tuple"):
                return False
        return True
    helpers = [("int_t(3)", I.int_t(3)), ("INT_T", I.INT_T), ("FLOAT_T", F.FLOAT_T), ("STRING_T", P.STRING_T), ("Array", A.Array(tys.Bool, 3)),
               ("List", L.List(tys.Qubit)), ("StaticArray", SA.StaticArray(tys.Bool))]
    for nm, t in helpers:
        ctx.evaluations += 1
        extn = t.type_def.get_extension().name
        try:
            decl = spec_json(extn)["types"][t.type_def.name]
        except (KeyError, FileNotFoundError):
            ctx.violation({"helper": nm, "what": "definition exists"}, {"helper": nm}, f"{extn}.{t.type_def.name} in specification", "absent", clause="StdLib")
            continue
        if not kinds_match(t.args, decl["params"]) or [W.proj_param(p) for p in t.type_def.params] != decl["params"]:
            ctx.violation({"helper": nm, "what": "parameters"}, {"helper": nm}, decl["params"], [W.proj_arg(a) for a in t.args], clause="StdLib params")
    vals = [("IntVal", I.IntVal(3, 4)), ("FloatVal", F.FloatVal(0.5)), ("StringVal", P.StringVal("x")), ("ArrayVal", A.ArrayVal([], tys.Bool)),
            ("ListVal", L.ListVal([], tys.Bool)), ("StaticArrayVal", SA.StaticArrayVal([], tys.Bool, "n"))]
    for nm, v in vals:
        ctx.evaluations += 1
        t = v.to_value().typ
        extn = t.type_def.get_extension().name
        try:
            decl = spec_json(extn)["types"][t.type_def.name]
            if not kinds_match(t.args, decl["params"]):
                raise KeyError
        except (KeyError, FileNotFoundError):
            ctx.violation({"helper": nm, "what": "constant type"}, {"helper": nm}, "type defined in specification with matching parameters", str(t), clause="StdLib")
    # the parameters a typed constant passes to its type are the ones it was built with
    ctx.evaluations += 1
    for w in range(0, 7):
        t = I.IntVal(1, w).to_value().typ
        if [W.proj_arg(a) for a in t.args] != [{"tya": "BoundedNat", "n": w}] or [W.proj_arg(a) for a in I.int_t(w).args] != [{"tya": "BoundedNat", "n": w}]:
            ctx.violation({"helper": "IntVal/int_t", "what": "width parameter"}, {"width": w}, w, [W.proj_arg(a) for a in t.args], clause="StdLib params")
    for k in range(0, 3):
        from hugr import val as V
        t = A.ArrayVal([V.TRUE] * k, tys.Bool).to_value().typ
        if [W.proj_arg(a) for a in t.args] != [{"tya": "BoundedNat", "n": k}, {"tya": "Type", "ty": {"t": "Sum", "s": "Unit", "size": 2}}]:
            ctx.violation({"helper": "ArrayVal", "what": "size/element parameters"}, {"size": k}, k, [W.proj_arg(a) for a in t.args], clause="StdLib params")
    opsh = [("Not", LG.Not, "logic", "Not"), ("DivMod", I.DivMod, "arithmetic.int", "idivmod_u"), ("MakeTuple", O.MakeTuple([tys.Bool]), "prelude", "MakeTuple"),
            ("UnpackTuple", O.UnpackTuple([tys.Bool]), "prelude", "UnpackTuple"), ("Noop", O.Noop(tys.Bool), "prelude", "Noop")]
    for nm, op, extn, opn in opsh:
        ctx.evaluations += 1
        od = op.op_def()
        try:
            decl = spec_json(extn)["operations"][opn]
        except (KeyError, FileNotFoundError):
            decl = None
        ok = decl is not None and od.name == opn and od.get_extension().name == extn
        if ok and decl.get("signature"):
            ok = kinds_match(op.type_args(), decl["signature"]["params"])
        if not ok:
            ctx.violation({"helper": nm, "what": "operation definition"}, {"helper": nm}, f"{extn}.{opn} with matching parameters",
                          f"{od.get_extension().name}.{od.name} args {[W.proj_arg(a) for a in op.type_args()]}", clause="StdLib ops")


def replay(path: str) -> int:
    print(json.dumps(json.load(open(path)), indent=1)[:5000])
    return 0
