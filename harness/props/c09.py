"""C09 — package envelopes round-trip and carry the documented header (spec: Envelope.tla)."""
from __future__ import annotations

import json

from ..catalog import extensions, modules, norm_sets
from ..common import Ctx, tlc_must_hold
from ..tlc import MachineryError, cleanup, run_tlc, workdir

ZSTD_MAGIC = bytes([0x28, 0xB5, 0x2F, 0xFD])


def run(ctx: Ctx) -> None:
    import pyzstd

    from hugr.envelope import EnvelopeConfig, EnvelopeFormat, EnvelopeHeader
    from hugr.package import Package
    quick = ctx.tier == "quick"
    mods = modules()
    exts = extensions()
    maxm, maxe = (2, 2) if quick else (len(mods), 3)
    levels = "LevelsQuick" if quick else "LevelsFull"
    ctx.rule = ("TLC enumerates all 65536 (format, flags) byte pairs behind the magic number, all truncations and one-byte magic "
                "corruptions with DecodeHeader's verdict, and all (modules, extensions, format, level, text) package configurations; "
                "each is run through EnvelopeHeader.from_bytes / Package.from_bytes / from_str / to_bytes / to_str. "
                "non-trivial = unknown format byte, compressed flag, truncated/corrupted header, or a package configuration with "
                "compression or >= 1 module; distinct = distinct emitted case.")
    ctx.assumptions = ["MODULE formats need the native _hugr encoder (absent offline): only their header/refusal behaviour is checked",
                       "to_str with compression counts as 'cannot be encoded' whatever it raises",
                       "zstd/UTF-8/JSON codecs are opaque: only flag <=> zstd frame and document equality are checked"]
    empty_json = Package([]).to_bytes()[10:]
    wd = workdir("c09")
    try:
        cfg = (f"INIT MCInit\nNEXT MCNext\nCONSTANT MaxMods = {maxm}\nCONSTANT MaxExts = {maxe}\nCONSTANT Levels <- {levels}\n"
               "INVARIANT RoundTrip\nINVARIANT FlagLaw\nINVARIANT HeaderInverse\nINVARIANT EmitOnce\nCHECK_DEADLOCK FALSE\n")
        n = [0]

        def sink(ln):
            if not isinstance(ln, dict) or "mode" not in ln:
                return
            n[0] += 1
            mode = ln["mode"]
            ctx.evaluations += 1
            if mode in ("hdr", "trunc", "magic"):
                raw = bytes(ln["bytes"])
                exp = ln["dec"]
                if mode != "hdr" or exp["res"] != "ok" or exp["zstd"]:
                    ctx.nontriv(f"{mode}:{ln['x']}:{ln['y']}")
                try:
                    h = EnvelopeHeader.from_bytes(raw)
                    ob = {"res": "ok", "fmt": h.format.value, "zstd": bool(h.zstd)}
                except ValueError:
                    ob = {"res": "ValueError", "fmt": 0, "zstd": False}
                except Exception as e:  # noqa: BLE001
                    ob = {"res": type(e).__name__, "fmt": 0, "zstd": False}
                if ob != {"res": exp["res"], "fmt": exp["fmt"], "zstd": exp["zstd"]}:
                    ctx.violation({"mode": mode, "what": "from_bytes", "exp": exp["res"], "obs": ob["res"]}, ln, exp, ob, clause="Envelope!DecodeHeader")
                    return
                # the full reader: header + a payload consistent with the flag bit
                payload = b"" if mode == "trunc" else (pyzstd.compress(empty_json) if raw[9] & 1 else empty_json)
                for what, call in (("Package.from_bytes", lambda: Package.from_bytes(raw + payload)),):
                    try:
                        p = call()
                        r = "ok" if (p.modules == [] and p.extensions == []) else "wrong-package"
                    except ValueError:
                        r = "ValueError"
                    except Exception as e:  # noqa: BLE001
                        r = type(e).__name__
                    want = "ok" if (exp["res"] == "ok" and exp["fmt"] == 63) else "ValueError"
                    if r != want:
                        ctx.violation({"mode": mode, "what": what, "exp": want, "obs": r}, ln, want, r, clause="Envelope!Read")
                        return
                if mode != "hdr":
                    try:
                        Package.from_str(raw.decode("latin-1") if mode == "magic" else raw.decode("ascii"))
                        r = "ok"
                    except ValueError:
                        r = "ValueError"
                    except Exception as e:  # noqa: BLE001
                        r = type(e).__name__
                    if r != "ValueError":
                        ctx.violation({"mode": mode, "what": "from_str", "exp": "ValueError", "obs": r}, ln, "ValueError", r, clause="Envelope!Read")
                return
            # ---- package configurations
            fmt, lvl, text = ln["x"], ln["lvl"], ln["text"]
            pk = Package([mods[i][1] for i in range(ln["nm"])], [exts[i][1] for i in range(ln["ne"])])
            conf = EnvelopeConfig(format=EnvelopeFormat(fmt), zstd=None if lvl < 0 else lvl)
            if lvl >= 0 or ln["nm"] > 0:
                ctx.nontriv(f"pkg:{fmt}:{lvl}:{text}:{ln['nm']}:{ln['ne']}")
            if ln["nm"] == 2 and ln["ne"] == 1 and fmt == 63:
                ctx.sample({"modules": [mods[i][0] for i in range(ln["nm"])], "extensions": [exts[i][0] for i in range(ln["ne"])],
                            "format": fmt, "zstd": lvl, "text": text, "expected_header": ln["bytes"]})
            sig = {"mode": "pkg", "fmt": fmt, "text": text, "zstd": lvl >= 0}
            if text and ln["refused"]:
                try:
                    pk.to_str(conf)
                    ctx.violation(dict(sig, what="to_str accepted non-printable format"), ln, "ValueError", "ok", clause="Envelope!TextRefused")
                except ValueError:
                    pass
                except Exception as e:  # noqa: BLE001
                    ctx.violation(dict(sig, what="to_str wrong exception"), ln, "ValueError", type(e).__name__, clause="Envelope!TextRefused")
                return
            if not ln["encodable"]:
                if text and fmt == 63:          # text + compression: must not yield text that decodes to something else
                    try:
                        s = pk.to_str(conf)
                    except Exception:  # noqa: BLE001
                        return
                    try:
                        back = Package.from_str(s)
                    except Exception as e:  # noqa: BLE001
                        ctx.violation(dict(sig, what=f"exception {type(e).__name__}"), ln, "text that decodes back", repr(e)[:300],
                                      clause="Envelope!RoundTrip")
                        return
                    _cmp(ctx, sig, ln, pk, back)
                return
            try:
                _pkg_case(ctx, sig, ln, pk, conf, text, lvl, fmt)
            except Exception as e:  # noqa: BLE001  (an exception of the implementation is an observation)
                ctx.violation(dict(sig, what=f"exception {type(e).__name__}"), ln, "round trip", repr(e)[:300], clause="Envelope!RoundTrip")

        def _pkg_case(ctx, sig, ln, pk, conf, text, lvl, fmt):
            enc = pk.to_str(conf).encode("utf-8") if text else pk.to_bytes(conf)
            if list(enc[:10]) != ln["bytes"]:
                ctx.violation(dict(sig, what="header bytes"), ln, ln["bytes"], list(enc[:10]), clause="Envelope!HeaderBytes")
                return
            is_frame = enc[10:14] == ZSTD_MAGIC
            if is_frame != (lvl >= 0):
                ctx.violation(dict(sig, what="flag<=>zstd frame"), ln, lvl >= 0, is_frame, clause="Envelope!FlagLaw")
                return
            body = pyzstd.decompress(enc[10:]) if is_frame else enc[10:]
            doc = json.loads(body)
            want = json.loads(pk._to_serial().model_dump_json())
            if norm_sets(doc) != norm_sets(want):
                ctx.violation(dict(sig, what="payload document"), ln, "package document", "different", clause="Envelope!Write")
                return
            back = Package.from_str(enc.decode("utf-8")) if text else Package.from_bytes(enc)
            _cmp(ctx, sig, ln, pk, back)
            if fmt == 63 and lvl < 0 and not text:
                back2 = Package.from_str(pk.to_str(conf))
                _cmp(ctx, dict(sig, text=True), ln, pk, back2)
            # the channel model writes the package as it is *now*: encode, change the package object, encode again
            if ln["nm"] == 1 and ln["ne"] <= 1:
                from hugr.hugr import Hugr
                fresh = Hugr.load_json(pk.modules[0].to_json())          # private copies: the catalogue objects stay untouched
                pk2 = Package([fresh], list(pk.extensions))
                _ = pk2.to_str(conf) if text else pk2.to_bytes(conf)
                fresh[fresh.root].metadata["edited-after-first-encoding"] = [1, None]
                pk2.modules.append(Hugr.load_json(mods[0][1].to_json()))
                enc2 = pk2.to_str(conf).encode("utf-8") if text else pk2.to_bytes(conf)
                back3 = Package.from_str(enc2.decode("utf-8")) if text else Package.from_bytes(enc2)
                _cmp(ctx, dict(sig, what2="second encoding after the package changed"), ln, pk2, back3)

        res = run_tlc("MC_Envelope", cfg, wd, workers=1, line_sink=sink)
        tlc_must_hold(ctx, "M+S2C envelope", res, "Envelope model")
        ctx.exhaustive = True
        if n[0] < 65536:
            raise MachineryError(f"only {n[0]} cases emitted")
        # ---- reader histories and near-miss inputs (Envelope!Read is a function of its input alone)
        pk = Package([mods[1][1]], [exts[0][1]])
        text_env = pk.to_str(EnvelopeConfig.TEXT)
        for ws in (" ", "\n", "\t", "\x0b", "\x0c", "\r\n"):
            ctx.evaluations += 1
            try:
                Package.from_str(ws + text_env)
                r = "ok"
            except ValueError:
                r = "ValueError"
            except Exception as e:  # noqa: BLE001
                r = type(e).__name__
            if r != "ValueError":
                ctx.violation({"mode": "near-miss", "what": "text envelope preceded by white space"}, {"prefix": repr(ws)}, "ValueError (the magic number does not come first)", r,
                              clause="Envelope!DecodeHeader (magic at offset 0)")
        comp = pk.to_bytes(EnvelopeConfig(format=EnvelopeFormat.JSON, zstd=3))
        for cut in (len(comp) // 2, len(comp) - 1, 12):
            ctx.evaluations += 1
            try:
                Package.from_bytes(comp[:cut])
                ctx.violation({"mode": "history", "what": "truncated compressed envelope accepted"}, {"cut": cut}, "an error", "ok", clause="Envelope!Read")
            except Exception:  # noqa: BLE001  (which error is zstd's business)
                pass
            try:
                back = Package.from_bytes(comp)                  # a failed decode must not influence the next one
                _cmp(ctx, {"mode": "history", "what": "valid envelope decoded after a failed decode"}, {"cut": cut}, pk, back)
            except Exception as e:  # noqa: BLE001
                ctx.violation({"mode": "history", "what": "valid envelope rejected after a failed decode"}, {"cut": cut}, "round trip", repr(e)[:300], clause="Envelope!Read (no state between calls)")
        # defaults documented on the class
        for nm, c in (("TEXT", EnvelopeConfig.TEXT), ("BINARY", EnvelopeConfig.BINARY)):
            pk = Package([mods[1][1]], [exts[0][1]])
            b = pk.to_bytes(c)
            if list(b[:10]) != [72, 85, 71, 82, 105, 72, 74, 118, c.format.value, 64 + (0 if c.zstd is None else 1)]:
                ctx.violation({"mode": "default", "what": nm}, {"config": nm}, None, list(b[:10]), clause="Envelope!HeaderBytes")
    finally:
        cleanup(wd)


def _cmp(ctx, sig, ln, pk, back) -> None:
    if len(back.modules) != len(pk.modules) or len(back.extensions) != len(pk.extensions):
        ctx.violation(dict(sig, what="counts"), ln, [len(pk.modules), len(pk.extensions)], [len(back.modules), len(back.extensions)],
                      clause="Envelope!RoundTrip")
        return
    for i, (a, b) in enumerate(zip(pk.modules, back.modules)):
        if norm_sets(json.loads(a.to_json())) != norm_sets(json.loads(b.to_json())):
            ctx.violation(dict(sig, what="module document"), ln, f"module {i} document", "differs after decode", clause="Envelope!RoundTrip")
            return
    for i, (a, b) in enumerate(zip(pk.extensions, back.extensions)):
        if norm_sets(json.loads(a.to_json())) != norm_sets(json.loads(b.to_json())):
            ctx.violation(dict(sig, what="extension document"), ln, f"extension {i} document", "differs after decode", clause="Envelope!RoundTrip")
            return


def replay(path: str) -> int:
    body = json.load(open(path))
    print(json.dumps(body, indent=1)[:3000])
    return 0
