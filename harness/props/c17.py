"""C17 — the published JSON schema and the Python codec accept the same documents (exploration; spec: SchemaAgreement.tla)."""
from __future__ import annotations

import copy
import json

from .. import wire as W
from ..common import REPO, Ctx
from ..tlc import MachineryError, cleanup, run_tlc, workdir
from .terms_ops import STD_CFG, root_module

LEVEL = "exploration"


def paths(doc, prefix=()):
    """every position of a JSON document"""
    yield prefix, doc
    if isinstance(doc, dict):
        for k, v in doc.items():
            yield from paths(v, prefix + (k,))
    elif isinstance(doc, list):
        for i, v in enumerate(doc):
            yield from paths(v, prefix + (i,))


def set_at(doc, path, fn):
    d = copy.deepcopy(doc)
    cur = d
    for p in path[:-1]:
        cur = cur[p]
    fn(cur, path[-1])
    return d


DISCRIMINATORS = {"t", "s", "tp", "tya", "v", "op", "b"}


def mutations(doc):
    """(kind, generalized path, mutated document): single-point mutations whose JSON-Schema and pydantic semantics coincide"""
    for path, val in paths(doc):
        if not path:
            continue
        gp = "/".join("*" if (isinstance(p, int) or (i > 0 and path[i - 1] in ("operations", "types", "values"))) else p for i, p in enumerate(path))
        parent_is_obj = isinstance(path[-1], str)
        if parent_is_obj:
            yield "delete-key", gp, set_at(doc, path, lambda c, k: c.pop(k))
            if path[-1] in DISCRIMINATORS and isinstance(val, str):
                yield "unknown-discriminator", gp, set_at(doc, path, lambda c, k: c.__setitem__(k, "NoSuchVariant"))
        if isinstance(val, (dict, list)):
            yield "container-to-int", gp, set_at(doc, path, lambda c, k: c.__setitem__(k, 7))
            if isinstance(val, dict):
                yield "add-unknown-key", gp, set_at(doc, path, lambda c, k: c[k].__setitem__("x-unknown-key", 1))
        elif isinstance(val, (str, bool)) or (isinstance(val, int)):
            yield "scalar-to-list", gp, set_at(doc, path, lambda c, k: c.__setitem__(k, []))
            if isinstance(val, str) and val:
                # other spellings of a string: free-form strings stay acceptable to both sides, enumerated ones (bounds, tags) to neither
                alt = {"C": "Copyable", "A": "Any", "E": "Eq"}.get(val)
                if alt:
                    yield "enum-member-name", gp, set_at(doc, path, lambda c, k, a=alt: c.__setitem__(k, a))
                if val.swapcase() != val:
                    yield "string-other-case", gp, set_at(doc, path, lambda c, k, a=val.swapcase(): c.__setitem__(k, a))
        if val is not None and parent_is_obj:
            yield "to-null", gp, set_at(doc, path, lambda c, k: c.__setitem__(k, None))
    yield "add-unknown-key", "", dict(doc, **{"x-unknown-key": 1})


def strip_noise(x):
    """`additionalProperties: true` is semantically void and differs between pydantic versions"""
    if isinstance(x, dict):
        return {k: strip_noise(v) for k, v in x.items() if not (k == "additionalProperties" and v is True)}
    if isinstance(x, list):
        return [strip_noise(v) for v in x]
    return x


def run(ctx: Ctx) -> None:
    import jsonschema
    from pydantic import ConfigDict, ValidationError
    from pydantic.json_schema import models_json_schema

    from hugr._serialization.extension import Extension, Package
    from hugr._serialization.serial_hugr import SerialHugr, serialization_version
    from hugr._serialization.testing_hugr import TestingHugr

    from ..catalog import extensions, modules
    quick = ctx.tier == "quick"
    ctx.rule = ("TLC enumerates one base document per constructor path of the wire vocabulary (SchemaAgreement.tla: every op kind twice, "
                "types, sums, type schemes, values, two-node HUGRs); the harness applies every single-point mutation of five classes at every "
                "position; for each (document, root model, strict/lax) -- rebuilding the models in the generator's own order -- the verdict "
                "of the published schema file (jsonschema) must equal the verdict of the pydantic codec. The regenerated schemas are compared "
                "with the published files up to `additionalProperties: true`. non-trivial = mutated document; distinct = (root, config, mutation "
                "class, generalized path).")
    ctx.assumptions = ["differential acceptance over an enumerated document space, not structural identity of the two definitions (exploration level)",
                       "mutation classes are restricted to those where JSON-Schema and pydantic semantics coincide (no coercible scalars)"]
    wd = workdir("c17")
    base = []
    try:
        root = root_module(wd, "SchemaAgreement")
        cfg = "INIT SInit\nNEXT SNext\n" + STD_CFG + "INVARIANT SEmit\nCHECK_DEADLOCK FALSE\n"
        res = run_tlc(root, cfg, wd, workers=1, heap="4g")
        if res.exit_code != 0 or res.violated:
            raise MachineryError(f"SchemaAgreement enumeration failed: {res.error_text}")
        ctx.add_tlc("base documents", res)
        for ln in res.lines:
            if isinstance(ln, dict) and "kind" in ln:
                base.append((ln["kind"], W.fix_payload(W.from_tla(ln["x"]))))
    finally:
        cleanup(wd)
    if len(base) < 60:
        raise MachineryError(f"only {len(base)} base documents")
    ver = serialization_version()
    sdir = REPO / "specification" / "schema"
    ext_docs = [json.loads(e.to_json()) for _, e in extensions()]
    pkg_doc = json.loads(__import__("hugr.package", fromlist=["Package"]).Package([m for _, m in modules()[:2]], [e for _, e in extensions()[:2]])._to_serial().model_dump_json())
    strict = ConfigDict(strict=True, extra="forbid")
    lax = ConfigDict(strict=False, extra="allow")
    plan = [("testing_hugr_schema_strict", TestingHugr, strict, "strict"), ("testing_hugr_schema", TestingHugr, lax, "lax"),
            ("hugr_schema_strict", SerialHugr, strict, "strict"), ("hugr_schema", SerialHugr, lax, "lax")]
    seen = set()
    tested: dict = {}
    for prefix, model, conf, cname in plan:                      # the generator's own order, in one process
        f = sdir / f"{prefix}_{ver}.json"
        if not f.exists():
            ctx.violation({"check": "schema file for the models' version string"}, {"file": f.name}, "exists", "missing", clause="version string")
            continue
        published = json.loads(f.read_text())
        model._pydantic_rebuild(conf, force=True)
        # (a) regenerated == published (up to the void keyword)
        _, regenerated = models_json_schema([(s, "validation") for s in [model, Extension, Package]], title="HUGR schema")
        ctx.evaluations += 1
        if strip_noise(regenerated) != strip_noise(published):
            diffs = [k for k in set(regenerated["$defs"]) | set(published["$defs"])
                     if strip_noise(regenerated["$defs"].get(k)) != strip_noise(published["$defs"].get(k))]
            ctx.violation({"check": "regenerated schema", "file": prefix}, {"file": f.name}, "identical definitions", sorted(diffs)[:8], clause="published = generated")
        # (b) differential acceptance
        roots = [(model.__name__, model)] + ([("Extension", Extension)] + ([] if quick else [("Package", Package)]) if model is SerialHugr else [])
        for rname, rmodel in roots:
            validator = jsonschema.validators.validator_for(published)({"$ref": f"#/$defs/{rname}", "$defs": published["$defs"]})
            docs = []
            if rname == "TestingHugr":
                docs = [{"version": ver, k: x} for k, x in base if k != "hugr"]
            elif rname == "SerialHugr":
                docs = [{"version": ver, "nodes": x, "edges": [[[0, 0], [1, None]]], "metadata": [None, {"k": 1}], "encoder": "e"} for k, x in base if k == "hugr"]
            elif rname == "Extension":
                docs = ext_docs[:2] if quick else ext_docs
            else:
                docs = [pkg_doc]
            for doc in docs:
                cases = [("unmutated", "", doc)] + list(mutations(doc))
                for mk, gp, d in cases:
                    key = (rname, cname, mk, gp)
                    # quick: one probe per (mutation class, last two path elements); thorough: per full generalized path, 2 instances
                    tkey = (rname, cname, mk, "/".join(gp.split("/")[-2:])) if quick else key
                    reps = tested.get(tkey, 0)
                    if mk != "unmutated" and reps >= (1 if quick else 2):
                        continue                 # each (mutation class, generalized position) is probed on its first 1 (quick) / 3 instances
                    tested[tkey] = reps + 1
                    ctx.evaluations += 1
                    if mk != "unmutated":
                        ctx.nontriv("|".join(key))
                    sv = validator.is_valid(d)
                    try:
                        rmodel.model_validate_json(json.dumps(d))      # the decoder's checks on a JSON document
                        pv = True
                    except ValidationError:
                        pv = False
                    except Exception as e:  # noqa: BLE001
                        pv = f"raised {type(e).__name__}"
                    if sv != pv and key not in seen:
                        seen.add(key)
                        ctx.violation({"check": "acceptance", "root": rname, "config": cname, "mutation": mk, "path": gp, "schema": sv, "codec": pv},
                                      {"document": d}, f"schema accepts={sv}", f"codec accepts={pv}", clause="same documents accepted")
            if len(ctx.samples) < 3 and docs:
                ctx.sample({"root": rname, "config": cname, "base_document": docs[0], "mutation_classes": ["delete-key", "add-unknown-key", "unknown-discriminator", "container-to-int", "scalar-to-list"]})
    # (c) other configuration histories than the generator's: the two top-level models configured back to back with the SAME configuration,
    # in both orders - what a model accepts depends on its own last configuration only
    hugr_doc = next(({"version": ver, "nodes": x, "edges": [[[0, 0], [1, None]]], "metadata": [None, {"k": 1}], "encoder": "e"} for k, x in base if k == "hugr"), None)
    test_doc = next(({"version": ver, k: x} for k, x in base if k != "hugr"), None)
    for cname, conf in (("strict", strict), ("lax", lax)):
        for first, second, doc, pref in ((TestingHugr, SerialHugr, hugr_doc, "hugr_schema"), (SerialHugr, TestingHugr, test_doc, "testing_hugr_schema")):
            if doc is None:
                continue
            for prev in (lax if conf is strict else strict, None):      # the second model was last configured differently, or not since the plan
                if prev is not None:
                    second._pydantic_rebuild(prev, force=True)
                first._pydantic_rebuild(conf, force=True)
                second._pydantic_rebuild(conf, force=True)
                published = json.loads((sdir / f"{pref}{'_strict' if cname == 'strict' else ''}_{ver}.json").read_text())
                validator = jsonschema.validators.validator_for(published)({"$ref": f"#/$defs/{second.__name__}", "$defs": published["$defs"]})
                for mk, d in (("unmutated", doc), ("add-unknown-key", dict(doc, **{"x-unknown-key": 1}))):
                    ctx.evaluations += 1
                    sv = validator.is_valid(d)
                    try:
                        second.model_validate_json(json.dumps(d))
                        pv = True
                    except ValidationError:
                        pv = False
                    if sv != pv:
                        ctx.violation({"check": "acceptance after another configuration history", "root": second.__name__, "config": cname, "mutation": mk, "schema": sv, "codec": pv},
                                      {"history": [first.__name__, second.__name__], "config": cname, "document": d}, f"schema accepts={sv}", f"codec accepts={pv}",
                                      clause="same documents accepted (configuration histories)")
    # the version string in the models and in the file names
    for m in (SerialHugr, TestingHugr, Extension, Package):
        ctx.evaluations += 1
        if m.get_version() != ver:
            ctx.violation({"check": "version string"}, {"model": m.__name__}, ver, m.get_version(), clause="same version string")


def replay(path: str) -> int:
    print(json.dumps(json.load(open(path)), indent=1)[:4000])
    return 0
