"""Shared legs for C02 / C03 / C05(b) over store states: expected documents from HugrSerial.tla vs Hugr.to_json / load_json."""
from __future__ import annotations

import json
import random

from .. import serial as S
from ..common import Ctx, tlc_must_hold
from ..store_adapter import ImplError, StoreAdapter
from ..tlc import MachineryError, cleanup, run_tlc, workdir
from . import c04


_SCHEMA_N = [0]


def _not_json(tok):
    raise ValueError(f"the token {tok} is not JSON")


def check_hugr(ctx: Ctx, focus: str, h, case, sig0: dict, expected_doc=None, foreign_doc=None, exact_order: bool = False) -> bool:
    """All document-level checks on one real Hugr. focus in {'C02','C03','C05'} selects what is reported.
    Returns True if a violation was recorded."""
    from hugr.hugr import Hugr

    def bad(what, exp, obs, clause):
        ctx.violation(dict(sig0, check=what), case, exp, obs, clause=clause)
        return True
    try:
        text = h.to_json()
        d1 = json.loads(text)
    except Exception as e:  # noqa: BLE001
        return bad("to_json raised", "a document", repr(e)[:300], "Serialize")
    if focus == "C03":
        try:            # a specification-conformant reader parses RFC 8259 JSON: no NaN / Infinity tokens
            json.loads(text, parse_constant=_not_json)
        except ValueError as e:
            return bad("strict JSON", "RFC 8259 text", str(e)[:200], "the document is JSON")
    if focus == "C03":
        errs = S.schema_errors(d1)
        if errs:
            return bad("published strict schema", "valid", errs, "schema")
        probs = S.index_sane(d1)
        if probs:
            return bad("index sanity", "sane", probs[:3], "HugrSerial!IndexSane")
    if expected_doc is not None and focus == "C05":
        # the encoded graph carries every node's metadata on that node
        diff = S.same_doc(expected_doc, d1)
        if diff and "metadata" in diff:
            return bad("metadata in the encoded graph", "HugrSerial!Serialize", diff, "HugrSerial!Serialize (metadata)")
    if expected_doc is not None and focus in ("C02", "C03"):
        diff = S.same_doc(expected_doc, d1)
        if diff:
            return bad("document = Serialize(store)" if focus == "C02" else "port addressing / indices", "HugrSerial!Serialize", diff,
                       "HugrSerial!Serialize / PortAddressing")
        if exact_order and [n["parent"] for n in d1["nodes"]] != [n["parent"] for n in expected_doc["nodes"]]:
            return bad("order-preserving renumbering", [n["parent"] for n in expected_doc["nodes"]], [n["parent"] for n in d1["nodes"]],
                       "Serialize: ascending index order when no node was deleted")
    if focus == "C02" or (focus == "C05" and foreign_doc is None):      # (C05: histories without a model document - what was encoded decodes to the same graph)
        try:
            h2 = Hugr.load_json(text)
            d2 = json.loads(h2.to_json())
        except Exception as e:  # noqa: BLE001
            return bad("load_json(to_json) raised", "a HUGR", repr(e)[:300], "Load")
        from .. import wire as W
        if W.canon(d1) != W.canon(d2):
            return bad("fixed point", "same JSON value", S.same_doc(d1, d2) or "differs (ordering/fields)", "Serialize(Load(Serialize(s))) = Serialize(s)")
        diff = S.same_structure(S.structure(h), S.structure(h2))
        if diff:
            return bad("lossless", "same observable structure", diff, "SameUpToRenumbering(s, Load(Serialize(s)))")
    if focus == "C05" and foreign_doc is not None:
        # a schema-valid document not written by this library: same HUGR, order ports addressed without an offset
        f = _as_foreign(d1, expected_doc, foreign_doc)
        if f is None:
            raise MachineryError("cannot align foreign document with the implementation's document")
        _SCHEMA_N[0] += 1
        sanity = _SCHEMA_N[0] <= 40 or _SCHEMA_N[0] % 25 == 0      # (machinery sanity check of the harness-written documents; jsonschema is slow)
        errs = S.schema_errors(f) if sanity else None
        if errs:
            raise MachineryError(f"foreign document is not schema-valid: {errs}")
        try:
            hf = Hugr.load_json(json.dumps(f))
            df = json.loads(hf.to_json())
        except Exception as e:  # noqa: BLE001
            return bad("loading a foreign document raised", "a HUGR", repr(e)[:300], "Load(ForeignWrite(s))")
        diff = S.same_doc(d1, df)
        if diff:
            return bad("foreign document re-saved", "every node, edge (incl. order edges) and metadata preserved", diff,
                       "Load(ForeignWrite(s)) = Load(Serialize(s))")
        # the specification's own serialization of the store (independent of this library's writer), once with explicit order
        # offsets and once without: loading it must give the store's observable structure (links on the same ports, order ports
        # included), whatever this library's writer would have produced
        if expected_doc is not None:
            for variant in ("explicit", "null"):
                g = {k: v for k, v in d1.items() if k not in ("nodes", "edges", "metadata")}     # version / encoder header
                g.update(expected_doc)
                if variant == "null":
                    g["edges"] = [[[e[0][0], None if e[0][1] == foreign_doc[e[0][0]][0] else e[0][1]],
                                   [e[1][0], None if e[1][1] == foreign_doc[e[1][0]][1] else e[1][1]]] for e in expected_doc["edges"]]
                errs = S.schema_errors(g) if sanity else None
                if errs:
                    raise MachineryError(f"model document is not schema-valid: {errs}")
                try:
                    hg = Hugr.load_json(json.dumps(g))
                except Exception as e:  # noqa: BLE001
                    return bad(f"loading the model's document ({variant} order offsets) raised", "a HUGR", repr(e)[:300], "Load(Serialize_spec(s))")
                diff = S.same_structure(S.structure(h), S.structure(hg))
                if diff:
                    return bad(f"model document ({variant} order offsets) loaded", "the store's observable structure", diff,
                               "SameUpToRenumbering(s, Load(Serialize_spec(s)))")
    return False


def _as_foreign(d1, expected_doc, orderports):
    """d1 with every order endpoint written without an offset, as the reference writer does.  `orderports[k]` =
    <<order offset out, order offset in>> (or -1) of node k of the *model's* document; nodes are aligned through the
    pre-order numbering of both documents."""
    m_order = _preorder(expected_doc)
    r_order = _preorder(d1)
    if len(m_order) != len(r_order):
        return None
    r2m = {r: m for m, r in zip(m_order, r_order)}
    out = dict(d1)
    out["edges"] = [[[e[0][0], None if e[0][1] == orderports[r2m[e[0][0]]][0] else e[0][1]],
                     [e[1][0], None if e[1][1] == orderports[r2m[e[1][0]]][1] else e[1][1]]] for e in d1["edges"]]
    return out


def _preorder(doc):
    nodes = doc["nodes"]
    kids = {i: [] for i in range(len(nodes))}
    for i, n in enumerate(nodes):
        if i != 0:
            kids[n["parent"]].append(i)
    order, stack = [], [0]
    while stack:
        x = stack.pop()
        order.append(x)
        stack.extend(reversed(kids[x]))
    return order


def run_store_states(ctx: Ctx, focus: str, quick: bool) -> None:
    """S->C: expected documents for (a sample of) the reachable store states."""
    wd = workdir(f"serial-{focus}")
    try:
        base = c04.cfg(["a", "const"], ["none", "m"], "OffsetsTwo", 3, 2, [1], False, 40, "CountsOne", emit=None, laws=False,
                       samplek=(40 if quick else 6))
        res = run_tlc("MC_HugrSerial", base + "INVARIANT SerialLaws\n", wd, workers=16, heap="8g", want_lines=False, timeout=2400)
        tlc_must_hold(ctx, "M serialization laws over all store states (2 non-root nodes, <=2 links)", res, "HugrSerial laws")
        ctx.exhaustive = True
        n = [0]

        def sink(ln):
            if not isinstance(ln, dict) or "doc" not in ln:
                return
            n[0] += 1
            ctx.evaluations += 1
            hist = ln["hist"]
            ad = StoreAdapter((-1, 0))
            try:
                for ev in hist:
                    ad.apply(ev)
            except ImplError as e:
                ctx.violation({"check": "replay", "action": ev["a"]}, {"hist": hist}, "call succeeds", str(e)[:200], clause="HugrStore")
                return
            exp = S.model_doc_to_json(ln["doc"], ln["wireops"])
            foreign = ln["orderports"]
            deleted = any(e["a"] == "DeleteNode" for e in hist)
            if deleted or len(ln["doc"]["edges"]) >= 2:
                ctx.nontriv(hist)
            if len(hist) >= 5 and deleted:
                ctx.sample({"hist": hist, "expected_document": exp})
            check_hugr(ctx, focus, ad.h[1], {"hist": hist}, {"source": "store-state", "deleted": deleted}, exp, foreign, exact_order=not deleted)
        if quick:
            confs = [(["a"], ["none"], 3, 2, 12), (["a", "call", "loadf", "loadc"], ["none"], 3, 1, 5)]
        else:
            confs = [(["a", "const"], ["none", "m"], 3, 2, 12), (["a", "call", "loadf", "loadc", "const"], ["none", "m"], 3, 1, 6), (["a", "call"], ["none"], 4, 1, 20)]
        for toks, metas, mn, ml, k in confs:
            small = c04.cfg(toks, metas, "OffsetsTwo", mn, ml, [1], False, 40, "CountsOne", emit=None, laws=False, samplek=k)
            res = run_tlc("MC_HugrSerial", small + "INVARIANT EmitSerial\n", wd, workers=1, heap="8g", line_sink=sink, timeout=2400)
            tlc_must_hold(ctx, f"S2C expected documents of store states ops={toks} links<={ml}", res, "HugrSerial (emission)")
        ctx.note("store_states_checked", n[0])
        if n[0] < 300:
            raise MachineryError(f"only {n[0]} store states emitted")
    finally:
        cleanup(wd)


def run_random_histories(ctx: Ctx, focus: str, quick: bool) -> None:
    """Long random mutation histories (incl. deletions, index reuse, insertions): documents of the final stores."""
    rng = random.Random(ctx.seed + 23)
    nt = 150 if quick else 1500
    done = 0
    for t in range(nt):
        ad = StoreAdapter((-1, 0, 1))
        hist = []
        live = {1: [0], 2: [0]}
        kids = {1: {0: 0}, 2: {0: 0}}
        par = {1: {}, 2: {}}
        nxt = {1: 1, 2: 1}
        links = {1: [], 2: []}
        ok = True
        stray = None
        for _ in range(rng.randint(5, 40)):
            i = 1 if rng.random() < 0.8 else 2
            r = rng.random()
            if r < 0.35 and len(live[i]) < 10:
                o = rng.choice(["a", "a", "const", "call", "loadf", "loadc"])
                cand = [n for n in live[i] if n == 0 or True]
                ev = {"a": "AddNode", "i": i, "p": rng.choice(cand), "o": o, "cnt": -1 if o == "const" else rng.choice([-1, 2]),
                      "m": rng.choice(["none", "m", "u"])}
            elif r < 0.65:
                # only ports the operations have: 'a' has value ports 0,1 and order ports; 'const' has static out 0; root has none
                OUT = {"a": (-1, 0, 1), "const": (0,), "call": (-1, 0, 1), "loadf": (-1, 0), "loadc": (-1, 0)}
                IN = {"a": (-1, 0, 1), "call": (-1, 0, 1, 2), "loadf": (-1, 0), "loadc": (-1, 0)}
                srcs = [(n, o) for n in live[i] for o in OUT.get(ad.optok[i][n], ())]
                dsts = [(n, o) for n in live[i] for o in IN.get(ad.optok[i][n], ())]
                if not srcs or not dsts:
                    continue
                s, d = rng.choice(srcs), rng.choice(dsts)
                if (s[1] == -1) != (d[1] == -1):
                    continue
                ev = {"a": "AddLink", "i": i, "sn": s[0], "so": s[1], "dn": d[0], "do": d[1]}
                if rng.random() < 0.12 and s[1] >= 0:
                    # a stray link to ports beyond the operations' arity that is removed again at once: afterwards every link attaches
                    # to an existing port, so the document is within the property's domain - but port counts have been touched
                    ev = {"a": "AddLink", "i": i, "sn": s[0], "so": 3, "dn": d[0], "do": 4}
                    stray = {"a": "DeleteLink", "i": i, "sn": s[0], "so": 3, "dn": d[0], "do": 4}
            elif r < 0.75 and links[i]:
                l0 = rng.choice(links[i])
                ev = {"a": "DeleteLink", "i": i, "sn": l0[0], "so": l0[1], "dn": l0[2], "do": l0[3]}
            elif r < 0.92:
                cand = [n for n in live[i] if n != 0 and kids[i][n] == 0]
                if not cand:
                    continue
                ev = {"a": "DeleteNode", "i": i, "n": rng.choice(cand)}
            elif len(live[1]) + len(live[2]) <= 14:
                ev = {"a": "InsertHugr", "i": 1, "p": rng.choice(live[1])}
            else:
                continue
            try:
                ad.apply(ev)
                if stray is not None and ev["a"] == "AddLink" and ev["so"] == 3:
                    ad.apply(stray)
            except ImplError as e:
                ctx.violation({"check": "replay", "action": ev["a"]}, {"hist": hist + [ev]}, "call succeeds", str(e)[:200], clause="HugrStore")
                ok = False
                break
            hist.append(ev)
            if stray is not None and ev["a"] == "AddLink" and ev["so"] == 3:
                hist.append(stray)
                stray = None
                continue
            a = ev["a"]
            if a == "AddNode":
                m = nxt[i]; nxt[i] += 1
                live[i].append(m); kids[i][m] = 0; kids[i][ev["p"]] += 1; par[i][m] = ev["p"]
            elif a == "AddLink":
                links[i].append((ev["sn"], ev["so"], ev["dn"], ev["do"]))
            elif a == "DeleteLink":
                links[i].remove((ev["sn"], ev["so"], ev["dn"], ev["do"]))
            elif a == "DeleteNode":
                n = ev["n"]
                live[i].remove(n); kids[i][par[i][n]] -= 1
                links[i] = [l for l in links[i] if l[0] != n and l[2] != n]
            elif a == "InsertHugr":
                base = nxt[1]
                order = sorted(live[2])
                mp = {b: base + k for k, b in enumerate(order)}
                for b in order:
                    m = mp[b]
                    live[1].append(m); kids[1][m] = kids[2][b]
                    par[1][m] = ev["p"] if b == 0 else mp[par[2][b]]
                kids[1][ev["p"]] += 1
                nxt[1] += len(order)
                links[1] += [(mp[l[0]], l[1], mp[l[2]], l[3]) for l in links[2]]
        if not ok:
            continue
        done += 1
        ctx.evaluations += 1
        ctx.nontriv(hist)
        check_hugr(ctx, focus, ad.h[1], {"hist": hist}, {"source": "random-history", "deleted": any(e["a"] == "DeleteNode" for e in hist)})
    ctx.legs[f"random mutation histories ({focus})"] = {"histories": done}
    ctx.traces += done


def _function_values(v, depth=0):
    if depth > 4:
        return
    if getattr(v, "body", None) is not None and hasattr(v.body, "links"):
        yield v
    for x in getattr(v, "vals", None) or []:
        yield from _function_values(x, depth + 1)


def run_catalog(ctx: Ctx, focus: str) -> None:
    """Builder-made HUGRs of the catalogue (attributes: polymorphic functions, deltas, non-ASCII metadata, nested JSON...)."""
    from ..catalog import modules
    from hugr import ops
    for name, h in modules(nonfinite=(focus == "C03")):
        ctx.evaluations += 1
        ctx.nontriv(name)
        check_hugr(ctx, focus, h, {"catalog": name}, {"source": "catalog", "name": name})
        # history: the HUGR has been serialized (above); now the body of a function-valued constant is changed through the public
        # API and the HUGR is checked again - the second document must describe the HUGR as it is now
        bodies = [v.body for _, d in h.nodes() if isinstance(d.op, ops.Const) for v in _function_values(d.op.val)]
        if bodies:
            ctx.evaluations += 1
            for bd in bodies:
                bd[bd.root].metadata["edited-after-first-serialization"] = [0, None]
                kids = bd.children(bd.root)
                if len(kids) >= 2:
                    bd.add_order_link(kids[0], kids[1])
            check_hugr(ctx, focus, h, {"catalog": name, "history": "function constant body edited after a first serialization"},
                       {"source": "catalog", "name": name, "history": "body-edited"})
