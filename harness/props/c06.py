"""C06 — operation signatures and port kinds follow the specification's typing rules (spec: HugrWire, MC_Ops)."""
from __future__ import annotations

import json

from ..common import Ctx
from .terms_ops import run_ops


def run(ctx: Ctx) -> None:
    ctx.rule = ("TLC enumerates operation terms of all 21 wire kinds plus the sugar ops over rows of length <= 2 (incl. empty rows, "
                "linear types, a row-polymorphic function whose instantiation changes arity) and checks the typing laws; each "
                "term is decoded (and, for sugar, built) and outer/inner signature, num_out, nth_inputs/nth_outputs, the function "
                "port offset and port_kind / port_type of every existing port incl. the order port are compared, on the op and "
                "through Hugr.port_kind/port_type. non-trivial = term larger than 120 chars of JSON.")
    ctx.assumptions = ["only ports that exist are queried; types are compared up to the two spellings of sums of empty rows"]
    run_ops(ctx, "typing")


def replay(path: str) -> int:
    print(json.dumps(json.load(open(path)), indent=1)[:5000])
    return 0
