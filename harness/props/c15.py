"""C15 — index-based (tracked) wiring is equivalent to explicit wiring (spec: HugrTracked.tla)."""
from __future__ import annotations

import json
import random

from ..common import Ctx, tlc_must_hold
from ..tlc import MachineryError, cleanup, run_tlc, workdir
from ..traces import validate_traces

META = {"none": None, "m": {"tag": "mëta", "n": [1, None]}}
NONE = [-1, -1]


def op_of(tok):
    from hugr import ops, tys
    from hugr.std.int import INT_T, DivMod
    return {"N": lambda: ops.Noop(INT_T), "D": lambda: DivMod,
            "M": lambda: ops.Custom("dup", tys.FunctionType([INT_T], [INT_T, INT_T]), "", "verif.q", [])}[tok]()


class Pair:
    """The same program on a TrackedDfg (integer indices) and on a plain Dfg (the wires the specification says they denote)."""

    def __init__(self, width: int):
        from hugr.build.dfg import Dfg
        from hugr.build.tracked_dfg import TrackedDfg
        from hugr.std.int import INT_T
        self.t = TrackedDfg(*[INT_T] * width)
        self.p = Dfg(*[INT_T] * width)
        self.nodes_t = [self.t.input_node]
        self.coms = {}
        self.nodes_p = [self.p.input_node]
        self.width = width

    def wire(self, which, w):
        nodes = self.nodes_t if which == "t" else self.nodes_p
        return nodes[w[0]].out(w[1])

    def arg_t(self, a):
        return a["i"] if a["k"] == "idx" else self.wire("t", a["w"])

    def model_wire(self, port):
        for k, n in enumerate(self.nodes_t):
            if n.idx == port.node.idx:
                return [k, port.offset]
        return [-9, port.offset]

    def tracked_view(self):
        return [NONE if w is None else self.model_wire(w.out_port()) for w in self.t.tracked]

    def apply(self, ev, explicit_ins=None):
        """returns the outcome record; explicit_ins: the wires HugrTracked says the arguments denote (for the plain Dfg)"""
        a = ev["a"]
        try:
            if a == "TrackWire":
                return {"k": "index", "i": self.t.track_wire(self.wire("t", ev["w"]))}
            if a == "TrackInputs":
                return {"k": "indices", "is": self.t.track_inputs()}
            if a == "Untrack":
                return {"k": "wire", "w": self.model_wire(self.t.untrack_wire(ev["i"]).out_port())}
            if a == "Add":
                op = op_of(ev["op"])
                meta = META[ev["m"]]
                # a Command is a value: the same Command object may be added again later (a reused gate / layer). Commands whose
                # arguments are all integers are built once per (op, arguments) and the object is reused.
                args_t = [self.arg_t(x) for x in ev["args"]]
                if all(isinstance(x, int) for x in args_t):
                    key = (ev["op"], tuple(args_t))
                    com = self.coms.setdefault(key, op(*args_t))
                else:
                    com = op(*args_t)
                n = self.t.add(com, metadata=dict(meta) if meta else None)
                self.nodes_t.append(n)
                if explicit_ins is not None:
                    m = self.p.add_op(op_of(ev["op"]), *[self.wire("p", w) for w in explicit_ins], metadata=dict(meta) if meta else None)
                    self.nodes_p.append(m)
                return {"k": "node", "n": len(self.nodes_t) - 1}
            if a == "SetIndexedOutputs":
                self.t.set_indexed_outputs(*[self.arg_t(x) for x in ev["args"]])
                if explicit_ins is not None:
                    self.p.set_outputs(*[self.wire("p", w) for w in explicit_ins])
                return {"k": "ok"}
            if a == "SetTrackedOutputs":
                self.t.set_tracked_outputs()
                if explicit_ins is not None:
                    self.p.set_outputs(*[self.wire("p", w) for w in explicit_ins])
                try:                      # the outputs are set now (possibly to the empty row): the circuit is complete and serializes
                    self.t.hugr.to_json()
                except Exception as e:  # noqa: BLE001
                    return {"k": f"outputs not set: to_json raised {type(e).__name__}"}
                return {"k": "ok"}
        except IndexError:
            return {"k": "IndexError"}
        raise MachineryError(f"unknown action {a}")

    def cmds_view(self, h, nodes):
        """explicit program read back from a real HUGR: per command node its op token, the wires on its inputs, metadata token"""
        out = []
        inv = {n.idx: k for k, n in enumerate(nodes)}
        for k, n in enumerate(nodes[1:], start=1):
            op = h[n].op
            tok = {"Noop": "N", "_DivModDef": "D", "Custom": "M"}.get(type(op).__name__, "?")
            ins = []
            for p in range(h.num_in_ports(n)):
                srcs = list(h.linked_ports(n.inp(p)))
                ins.append([inv.get(srcs[0].node.idx, -9), srcs[0].offset] if len(srcs) == 1 else [-8, len(srcs)])
            md = h[n].metadata
            out.append({"op": tok, "ins": ins, "meta": next((t for t, v in META.items() if (v or {}) == md), "?")})
        return out

    def outs_view(self, h, nodes, out_node):
        inv = {n.idx: k for k, n in enumerate(nodes)}
        res = []
        for p in range(h.num_in_ports(out_node)):
            srcs = list(h.linked_ports(out_node.inp(p)))
            res.append([inv.get(srcs[0].node.idx, -9), srcs[0].offset] if len(srcs) == 1 else [-8, len(srcs)])
        return res


def run(ctx: Ctx) -> None:
    quick = ctx.tier == "quick"
    ctx.rule = ("leg M: TLC explores HugrTracked (track / untrack / add with mixed integer and wire arguments, the same index twice, "
                "multi-output ops / set_indexed_outputs / set_tracked_outputs) with the laws FreedForGood, OnlyGrows, WellWired. S->C: a "
                "sample of the distinct states is replayed on a TrackedDfg and, with the wires the specification substitutes, on a plain "
                "Dfg; tracked list, the explicit program read back from both HUGRs (ops, links, metadata), outputs and the two serialized "
                "documents are compared. C->S: random programs of 10-60 calls validated by Trace_HugrTracked. "
                "non-trivial = program with an untrack or a command mixing indices and wires.")
    ctx.assumptions = ["non-negative indices; integer arguments only at positions below the op's output count (re-binding is defined there)"]
    wd = workdir("c15")
    try:
        base = ('INIT MCInit\nNEXT MCNext\nCONSTANT Width = 2\nCONSTANT Arity <- ArityDef\nCONSTANT MaxCmds = 2\n')
        cfgM = base + 'CONSTANT Ops = {"D", "M"}\nCONSTANT Metas = {"m"}\nCONSTANT MaxTracked = 2\nINVARIANT Inv\nPROPERTY Laws\nVIEW View\nCHECK_DEADLOCK FALSE\n'
        res = run_tlc("MC_HugrTracked", cfgM, wd, workers=16, heap="8g", want_lines=False, timeout=2400)
        tlc_must_hold(ctx, "M complete graph width 2, <=2 commands, <=2 tracked", res, "HugrTracked model")
        ctx.exhaustive = True
        k = 241 if quick else 23
        n = [0]

        def sink(ln):
            if not isinstance(ln, dict) or "hist" not in ln or TLC_SKIP(ln, k):
                return
            n[0] += 1
            ctx.evaluations += 1
            _replay(ctx, ln)
        res = run_tlc("MC_HugrTracked", cfgM.replace("PROPERTY Laws\n", "") + "INVARIANT EmitState\n", wd, workers=1, heap="8g", line_sink=sink, timeout=2400)
        tlc_must_hold(ctx, f"S2C distinct states (every {k}th replayed)", res, "HugrTracked (emission)")
        ctx.note("states_replayed", n[0])
        if n[0] < 300:
            raise MachineryError(f"only {n[0]} states replayed")
        # ---- C->S
        traces = gen_traces(ctx, ctx.seed + 15, 200 if quick else 2000, 10, 60)
        r3, rej = validate_traces(ctx, "c2s", "Trace_HugrTracked", traces, wd,
                                  constants='CONSTANT Width = 3\nCONSTANT Ops = {"N", "D", "M"}\nCONSTANT Arity <- ArityDef\nCONSTANT Metas = {"none", "m"}',
                                  properties=["TLaws"], heap="6g", timeout=2400)
        ctx.add_tlc("C2S Trace_HugrTracked", r3)
        ctx.traces += len(traces) - len(rej)
        for t in traces[:300]:
            ctx.nontriv([e["a"] for e in t])
        for i, at in rej:
            tr = traces[i]
            ev = tr[at - 1] if 0 < at <= len(tr) else None
            ctx.violation({"action": ev["a"] if ev else "?", "field": "trace-step"},
                          {"hist": [{k2: v for k2, v in e.items() if k2 not in ("tracked", "cmds", "outs", "res")} for e in tr[:at]]},
                          "a step of HugrTracked ending in the logged tracked list / HUGR", ev, clause="Trace_HugrTracked!TNext", leg="C2S")
        if r3.violated and not rej:
            ctx.violation({"action": "?", "field": r3.violated}, {"stdout": r3.stdout[-2000:]}, clause=r3.violated, leg="C2S")
    finally:
        cleanup(wd)


_cnt = [0]


def TLC_SKIP(ln, k):
    _cnt[0] += 1
    interesting = any(e["a"] == "Untrack" for e in ln["hist"]) or any(
        e["a"] == "Add" and len({x["k"] for x in e["args"]}) == 2 for e in ln["hist"])
    return (_cnt[0] % k != 0) and not (interesting and _cnt[0] % max(1, k // 6) == 0)


def _replay(ctx: Ctx, ln) -> None:
    hist = ln["hist"]
    pr = Pair(2)
    sig = {"action": hist[-1]["a"]}
    if any(e["a"] == "Untrack" for e in hist) or any(e["a"] == "Add" and len({x["k"] for x in e["args"]}) == 2 for e in hist):
        ctx.nontriv(hist)
    if len(hist) >= 4:
        ctx.sample({"hist": hist, "expected_tracked": ln["tracked"], "expected_explicit_program": ln["cmds"]})
    cmds = ln["cmds"]
    ci = 0
    r = None
    try:
        for k, ev in enumerate(hist):
            last = k == len(hist) - 1
            explicit = None
            if ev["a"] == "Add":
                # the wires the specification substitutes: the command recorded in cmds (only if the call succeeded in the model)
                ok_in_model = not (last and ln["res"]["k"] == "IndexError") and ci < len(cmds)
                if ok_in_model and _model_add_ok(hist, k, ln):
                    explicit = cmds[ci]["ins"]
                    ci += 1
            elif ev["a"] in ("SetIndexedOutputs", "SetTrackedOutputs") and last and ln["res"]["k"] == "ok":
                explicit = ln["outs"]
            r = pr.apply(ev, explicit)
            if r["k"] == "IndexError" and not last:
                return      # the model never continues after a refused call in these behaviours (refusals are terminal-equivalent)
    except Exception as e:  # noqa: BLE001
        ctx.violation(dict(sig, field=f"exception {type(e).__name__}"), ln, "call succeeds", repr(e)[:300], clause="HugrTracked")
        return
    exp = ln["res"]
    if r["k"] != exp["k"] or (exp["k"] == "index" and r["i"] != exp["i"]) or (exp["k"] == "wire" and r["w"] != list(exp["w"])) or (
            exp["k"] == "indices" and list(r["is"]) != list(exp["is"])):
        ctx.violation(dict(sig, field="result"), ln, exp, r, clause=f"result of {hist[-1]['a']}")
        return
    if exp["k"] == "IndexError":
        return
    tv = pr.tracked_view()
    if tv != [list(w) for w in ln["tracked"]]:
        ctx.violation(dict(sig, field="tracked"), ln, ln["tracked"], tv, clause="HugrTracked!tracked")
        return
    expc = [{"op": c["op"], "ins": [list(w) for w in c["ins"]], "meta": c["meta"]} for c in cmds]
    ct = pr.cmds_view(pr.t.hugr, pr.nodes_t)
    cp = pr.cmds_view(pr.p.hugr, pr.nodes_p)
    if ct != expc:
        ctx.violation(dict(sig, field="tracked HUGR"), ln, expc, ct, clause="HugrTracked!cmds (explicit program)")
        return
    if cp != expc:
        raise MachineryError(f"plain Dfg replay differs from the explicit program: {cp} vs {expc}")
    if hist[-1]["a"] in ("SetIndexedOutputs", "SetTrackedOutputs"):
        ot = pr.outs_view(pr.t.hugr, pr.nodes_t, pr.t.output_node)
        if ot != [list(w) for w in ln["outs"]]:
            ctx.violation(dict(sig, field="outputs"), ln, ln["outs"], ot, clause="HugrTracked!outs")
            return
        dt, dp = json.loads(pr.t.hugr.to_json()), json.loads(pr.p.hugr.to_json())
        if dt["nodes"] != dp["nodes"] or sorted(map(json.dumps, dt["edges"])) != sorted(map(json.dumps, dp["edges"])) or dt.get("metadata") != dp.get("metadata"):
            ctx.violation(dict(sig, field="document"), ln, "same document as the plain Dfg", "differs", clause="SameAsExplicit")


def _model_add_ok(hist, k, ln) -> bool:
    return True


def gen_traces(ctx: Ctx, seed: int, n: int, lo: int, hi: int):
    rng = random.Random(seed)
    traces = []
    for _ in range(n):
        pr = Pair(3)
        nodes_out = [3]                 # outputs per node (model numbering)
        tracked_n = 0
        tr = []
        for _ in range(rng.randint(lo, hi)):
            r = rng.random()

            def some_wire():
                nd = rng.randrange(len(nodes_out))
                return [nd, rng.randrange(nodes_out[nd])] if nodes_out[nd] else [0, 0]
            if r < 0.15:
                ev = {"a": "TrackWire", "w": some_wire()}
            elif r < 0.2:
                ev = {"a": "TrackInputs"}
            elif r < 0.3 and tracked_n:
                ev = {"a": "Untrack", "i": rng.randrange(tracked_n + 1)}
            elif r < 0.97 or not tracked_n:
                op = rng.choice(["N", "D", "M"])
                nin = {"N": 1, "D": 2, "M": 1}[op]
                args = []
                for _ in range(nin):
                    if tracked_n and rng.random() < 0.6:
                        args.append({"k": "idx", "i": rng.randrange(tracked_n + (1 if rng.random() < 0.05 else 0))})
                    else:
                        args.append({"k": "wire", "w": some_wire()})
                ev = {"a": "Add", "op": op, "args": args, "m": rng.choice(["none", "m"])}
            else:
                ev = {"a": rng.choice(["SetTrackedOutputs", "SetIndexedOutputs"])}
                if ev["a"] == "SetIndexedOutputs":
                    ev["args"] = [({"k": "idx", "i": rng.randrange(tracked_n)} if rng.random() < 0.6 else {"k": "wire", "w": some_wire()}) for _ in range(rng.randint(0, 3))]
            try:
                res = pr.apply(ev)
            except Exception as e:  # noqa: BLE001
                ctx.violation({"action": ev["a"], "field": f"exception {type(e).__name__}"}, {"hist": [x for x in tr] + [ev]}, "call succeeds or IndexError",
                              repr(e)[:300], clause="HugrTracked", leg="C2S")
                break
            if res["k"] == "node":
                nodes_out.append({"N": 1, "D": 2, "M": 2}[ev["op"]])
            tracked_n = len(pr.t.tracked)
            rec = dict(ev, res=res)
            if res["k"] != "IndexError":
                rec["tracked"] = pr.tracked_view()
                rec["cmds"] = pr.cmds_view(pr.t.hugr, pr.nodes_t)
                rec["outs"] = pr.outs_view(pr.t.hugr, pr.nodes_t, pr.t.output_node) if ev["a"].startswith("Set") else []
            else:
                rec["tracked"], rec["cmds"], rec["outs"] = [], [], []
            tr.append(rec)
            if ev["a"].startswith("Set") and res["k"] == "ok":
                break
            if res["k"] == "IndexError" and ev["a"] in ("Add", "SetIndexedOutputs"):
                break               # a refused call may leave partial effects in the implementation; the behaviour ends here
        if tr:
            traces.append(tr)
    return traces


def replay(path: str) -> int:
    print(json.dumps(json.load(open(path)), indent=1)[:5000])
    return 0
