"""C12 — the model export is well scoped and faithful to the HUGR (spec: ModelExport.tla on (wire document, exported model))."""
from __future__ import annotations

import dataclasses
import json
import re
from collections import defaultdict

from ..common import REPO, Ctx
from ..docs import norm_doc
from ..tlc import MachineryError, cleanup, run_tlc, workdir


# ------------------------------------------------------------------ the attribute table the Rust binding reads
def rust_reads() -> dict:
    src = (REPO / "hugr-model" / "src" / "v0" / "ast" / "python.rs").read_text().splitlines()
    attrs: dict = defaultdict(set)
    cur, extracting = None, False
    for ln in src:
        m = re.search(r"impl<'py> pyo3::FromPyObject<'py> for (\w+)", ln)
        if m:
            cur, extracting = m.group(1), True
            attrs[cur]
            continue
        if re.search(r"impl<'py> pyo3::IntoPyObject<'py>", ln):
            extracting = False
        if not extracting:
            continue
        m = re.match(r'\s*"(\w+)" =>', ln)
        if m:
            cur = m.group(1)
            attrs[cur]
        for a in re.findall(r'\.getattr\("(\w+)"\)', ln):
            if "py_module" not in ln:
                attrs[cur].add(a)
    return attrs


RUST_TO_PY = {"Operation": None, "Term": None, "SeqPart": None}


def check_attribute_table(ctx: Ctx) -> None:
    import hugr.model as M
    reads = rust_reads()
    if len(reads) < 20:
        raise MachineryError(f"could not parse python.rs ({len(reads)} classes)")
    for cls, attrs in sorted(reads.items()):
        if cls in RUST_TO_PY:
            continue
        ctx.evaluations += 1
        py = getattr(M, cls, None)
        if py is None:
            ctx.violation({"check": "attribute table", "cls": cls}, {"class": cls}, "class exists in hugr.model", "missing", clause="MetadataCarried/attributes")
            continue
        fields = {f.name for f in dataclasses.fields(py)} if dataclasses.is_dataclass(py) else set()
        if fields != attrs:
            ctx.violation({"check": "attribute table", "cls": cls}, {"class": cls}, sorted(attrs), sorted(fields), clause="classes expose exactly the attributes the Rust binding reads")


# ------------------------------------------------------------------ projection (emulating the binding's reads)
def rd(obj, name):
    return getattr(obj, name)       # AttributeError here = the class lacks an attribute the binding reads


def lit(t):
    return rd(t, "value") if type(t).__name__ == "Literal" else None


def pt(t) -> dict:
    """Project a model term to the shapes ModelExport.tla composes signatures from (anything else is a printed leaf)."""
    cls = type(t).__name__
    def is_list(x):
        return type(x).__name__ == "List"
    if cls == "Splice":
        return {"k": "ty", "s": "splice:" + repr(rd(t, "seq"))}
    if cls == "Apply":
        sym, args = rd(t, "symbol"), list(rd(t, "args"))
        if sym == "core.fn" and len(args) == 2 and all(is_list(a) for a in args):
            return {"k": "fn", "ins": [pt(x) for x in rd(args[0], "parts")], "outs": [pt(x) for x in rd(args[1], "parts")]}
        if sym == "core.ctrl" and len(args) == 1 and is_list(args[0]):
            return {"k": "ctrl", "row": [pt(x) for x in rd(args[0], "parts")]}
        if sym == "core.adt" and len(args) == 1 and is_list(args[0]) and all(is_list(r) for r in rd(args[0], "parts")):
            return {"k": "adt", "rows": [[pt(x) for x in rd(r, "parts")] for r in rd(args[0], "parts")]}
    return {"k": "ty", "s": repr(t)}


def pa(t) -> dict:
    """Project an argument of an operation term: lists keep their structure, literals are printed, everything else as pt."""
    cls = type(t).__name__
    if cls == "List":
        return {"k": "list", "parts": [pa(x) for x in rd(t, "parts")]}
    if cls == "Literal":
        return {"k": "lit", "s": str(rd(t, "value")) if isinstance(rd(t, "value"), int) else repr(rd(t, "value"))}
    return pt(t)


def node_rows(nd: dict) -> dict:
    """The row-valued fields of one wire node, every type decoded and translated to a term ON ITS OWN (no signature is composed here)."""
    from ..wire import dec_type
    def row(ws):
        return [pt(dec_type(w).to_model()) for w in ws]
    out = {"a": [], "b": [], "c": [], "rows": [], "targs": []}
    op = nd.get("op")
    if op in ("Call", "LoadFunction"):
        from ..wire import dec_arg
        out["targs"] = [pt(dec_arg(w).to_model()) for w in nd.get("type_args") or []]
    if op in ("DFG", "CFG", "Extension", "CallIndirect", "Case"):
        out["a"], out["b"] = row(nd["signature"]["input"]), row(nd["signature"]["output"])
    elif op in ("Call", "LoadFunction"):
        out["a"], out["b"] = row(nd["instantiation"]["input"]), row(nd["instantiation"]["output"])
    elif op in ("FuncDefn", "FuncDecl"):
        out["a"], out["b"] = row(nd["signature"]["body"]["input"]), row(nd["signature"]["body"]["output"])
    elif op == "LoadConstant":
        out["b"] = row([nd["datatype"]])
    elif op == "Conditional":
        out["rows"], out["a"], out["b"] = [row(r) for r in nd["sum_rows"]], row(nd["other_inputs"]), row(nd["outputs"])
    elif op == "TailLoop":
        out["a"], out["b"], out["c"] = row(nd["just_inputs"]), row(nd["just_outputs"]), row(nd["rest"])
    elif op == "DataflowBlock":
        out["a"], out["rows"], out["c"] = row(nd["inputs"]), [row(r) for r in nd["sum_rows"]], row(nd["other_outputs"])
    elif op == "Tag":
        out["rows"] = [row(r) for r in nd["variants"]]
    elif op in ("Input", "Output"):
        out["a"] = row(nd["types"])
    elif op == "ExitBlock":
        out["a"] = row(nd["cfg_outputs"])
    return out


def proj_region(r) -> dict:
    hints = []
    for t in rd(r, "meta"):
        if type(t).__name__ == "Apply" and rd(t, "symbol") == "core.order_hint.order":
            a, b = rd(t, "args")
            hints.append([lit(a), lit(b)])
    kind = rd(r, "kind")
    return {"kind": getattr(kind, "name", str(kind)), "sources": list(rd(r, "sources")), "targets": list(rd(r, "targets")),
            "children": [proj_node(n) for n in rd(r, "children")], "hints": hints, "sig": pt(rd(r, "signature"))}


def proj_node(n) -> dict:
    op = rd(n, "operation")
    cls = type(op).__name__
    sym, callee = "", ""
    if cls in ("DefineFunc", "DeclareFunc", "DeclareAlias", "DefineAlias"):
        sym = rd(rd(op, "symbol"), "name")
    if cls == "CustomOp":
        t = rd(op, "operation")
        if type(t).__name__ == "Apply":
            s = rd(t, "symbol")
            args = rd(t, "args")
            if s == "core.call" and len(args) == 3 and type(args[2]).__name__ == "Apply":
                callee = rd(args[2], "symbol")
            elif s == "core.load_const" and len(args) == 2 and type(args[1]).__name__ == "Apply":
                callee = rd(args[1], "symbol")
    opsym, opargs, ncalleeargs, calleeargs = "", [], -1, []
    if cls == "CustomOp":
        t = rd(op, "operation")
        if type(t).__name__ == "Apply":
            opsym, args = rd(t, "symbol"), list(rd(t, "args"))
            opargs = [pa(a) for a in args]
            f = args[2] if opsym == "core.call" and len(args) == 3 else args[1] if opsym == "core.load_const" and len(args) == 2 else None
            if f is not None and type(f).__name__ == "Apply":
                ncalleeargs = len(rd(f, "args"))
                calleeargs = [pt(a) for a in rd(f, "args")]
    nparams, nonlinear, constterm = 0, [], ""
    if cls in ("DefineFunc", "DeclareFunc"):
        symb = rd(op, "symbol")
        names = [rd(p, "name") for p in rd(symb, "params")]
        nparams = len(names)
        for c in rd(symb, "constraints"):
            if type(c).__name__ == "Apply" and rd(c, "symbol") == "core.nonlinear":
                a = rd(c, "args")[0]
                nm = rd(a, "name") if type(a).__name__ == "Var" else None
                nonlinear.append(names.index(nm) if nm in names else -1)
            else:
                nonlinear.append(-2)
    if cls == "CustomOp":
        t = rd(op, "operation")
        if type(t).__name__ == "Apply" and rd(t, "symbol") == "core.load_const":
            a = rd(t, "args")
            if len(a) == 2:
                constterm = repr(a[1])
    key, metakeys = -1, []
    for t in rd(n, "meta"):
        if type(t).__name__ == "Apply":
            if rd(t, "symbol") == "core.order_hint.key":
                key = lit(rd(t, "args")[0])
            elif rd(t, "symbol") == "compat.meta_json":
                a = rd(t, "args")
                try:
                    # (non-finite floats are not JSON: the document carries null for them, and so does this projection)
                    vj = json.dumps(json.loads(lit(a[1]), parse_constant=lambda _tok: None), sort_keys=True)
                except Exception:  # noqa: BLE001
                    vj = f"<not json: {lit(a[1])!r}>"
                metakeys.append(f"{lit(a[0])}={vj}")
    symsig = pt(rd(rd(op, "symbol"), "signature")) if cls in ("DefineFunc", "DeclareFunc") else {"k": "ty", "s": ""}
    return {"sig": pt(rd(n, "signature")), "symsig": symsig, "opsym": opsym, "opargs": opargs, "ncalleeargs": ncalleeargs, "calleeargs": calleeargs, "op": cls, "sym": sym, "callee": callee, "inputs": list(rd(n, "inputs")), "outputs": list(rd(n, "outputs")),
            "regions": [proj_region(r) for r in rd(n, "regions")], "key": key, "metakeys": metakeys, "nparams": nparams, "nonlinear": nonlinear, "constterm": constterm}


def pair(name, h) -> dict:
    d = json.loads(h.to_json())
    out = norm_doc(name, d)
    md = d.get("metadata") or []
    out["metakeys"] = [sorted(f"{kk}={json.dumps(vv, sort_keys=True)}" for kk, vv in (md[k] or {}).items()) if k < len(md) else [] for k in range(len(d["nodes"]))]
    out["exp"] = proj_region(rd(h.to_model(), "root"))
    out["rows"] = [node_rows(nd) for nd in d["nodes"]]
    # the value every LoadConstant must inline: the value object of the Const it is linked to, exported on its own (value export does
    # not go through the node exporter). Document indices are matched with the HUGR's nodes by walking both hierarchies in parallel.
    from hugr import ops
    kids = {k: [] for k in range(len(d["nodes"]))}
    for k, nd in enumerate(d["nodes"]):
        if k != 0:
            kids[nd["parent"]].append(k)
    hnode = {}
    stack = [(0, h.root)]
    while stack:
        k, n = stack.pop()
        hnode[k] = n
        hk = list(h.children(n))
        if len(hk) != len(kids[k]):
            raise MachineryError("document and HUGR hierarchies differ")
        stack.extend(zip(kids[k], hk))
    terms = [""] * len(d["nodes"])
    for k, nd in enumerate(d["nodes"]):
        if nd.get("op") == "LoadConstant":
            src = [p.node for p in h.linked_ports(hnode[k].inp(0))]
            if len(src) == 1 and isinstance(h[src[0]].op, ops.Const):
                terms[k] = repr(h[src[0]].op.val.to_model())
    out["constterms"] = terms
    return out


def _two_param_calls():
    """C12's own inputs (not in the shared catalogue): a function with two type parameters, called and loaded with two DIFFERENT type
    arguments, so that the order of the arguments the callee symbol is applied to is observable."""
    from hugr import tys
    from hugr.build.function import Module
    A = tys.TypeBound.Any
    m = Module()
    sig = tys.PolyFuncType([tys.TypeTypeParam(A), tys.TypeTypeParam(A)],
                           tys.FunctionType([tys.Variable(0, A), tys.Variable(1, A)], [tys.Variable(1, A), tys.Variable(0, A)]))
    decl = m.declare_function("swap", sig)
    f = m.define_function("main", [tys.Qubit, tys.Bool])
    q, b = f.inputs()
    c = f.call(decl, q, b, instantiation=tys.FunctionType([tys.Qubit, tys.Bool], [tys.Bool, tys.Qubit]),
               type_args=[tys.Qubit.type_arg(), tys.Bool.type_arg()])
    inst = tys.FunctionType([tys.Bool, tys.Qubit], [tys.Qubit, tys.Bool])
    lf = f.load_function(decl, instantiation=inst, type_args=[tys.Bool.type_arg(), tys.Qubit.type_arg()])
    f.set_outputs(c[0], c[1], lf)
    return [("two-type-args", m.hugr)]


def judge_exports(pairs, wd, tag="exp"):
    f = wd / f"{tag}.json"
    f.write_text(json.dumps(pairs))
    res = run_tlc("ExportCheck", "INIT Init\nNEXT Next\nINVARIANT Verdict\nCHECK_DEADLOCK FALSE\n", wd, workers=1, env={"DOCS_FILE": str(f)},
                  heap="6g", timeout=3000)
    if res.exit_code != 0:
        raise MachineryError(f"ExportCheck failed: exit {res.exit_code}\n{res.error_text}")
    out = {ln["name"]: ln for ln in res.lines if isinstance(ln, dict) and "failing" in ln}
    if len(out) != len(pairs):
        raise MachineryError(f"ExportCheck judged {len(out)} of {len(pairs)}")
    return out, res


def run(ctx: Ctx) -> None:
    from ..progen import generate
    quick = ctx.tier == "quick"
    ctx.rule = ("C->S: module-rooted HUGRs from seeded random well-formed builder programs (functions called more than once, constants loaded "
                "more than once, explicit and Ext order edges, nested control flow, polymorphic calls) are exported with to_model(); the result "
                "is projected by emulating the Rust binding's attribute reads (table extracted from python.rs) and handed to TLC together with "
                "the raw wire document; ModelExport.tla decides RegionsMirrorHierarchy / PortsAreValuePorts / LinkPartition / Hyperedge / "
                "SymbolsResolve / OrderHints / MetadataCarried. non-trivial = program with a call, an order edge or control flow.")
    ctx.assumptions = ["the export has no state to drive: conformance is C->S only", "functions are module-level (symbols of nested definitions are not compared)"]
    check_attribute_table(ctx)
    wd = workdir("c12")
    try:
        n = 120 if quick else 1500
        pairs, meta = [], {}
        for k in range(n):
            seed = ctx.seed * 50021 + k
            try:
                h, g = generate(seed, 28, kind="module")
            except Exception:  # noqa: BLE001 (C01's business)
                continue
            try:
                pairs.append(pair(f"gen:{seed}", h))
            except Exception as e:  # noqa: BLE001
                ctx.violation({"check": f"export raised {type(e).__name__}"}, {"generator_seed": seed}, "to_model() succeeds", repr(e)[:300], clause="export", leg="C2S")
                continue
            meta[f"gen:{seed}"] = g
            if {"call", "explicit-order", "nonlocal-wire", "conditional", "cfg:diamond", "tail-loop"} & g.features:
                ctx.nontriv(seed)
        # module-rooted programs of the builder state machine (random walks of HugrBuilder.tla replayed on the real builders)
        from . import builder_model
        mh = builder_model.model_hugrs(wd, ctx.seed, 12 if quick else 120)
        for name, h, hist in mh[: (150 if quick else 3000)]:
            try:
                pairs.append(pair(name, h))
                ctx.nontriv(name)
            except Exception as e:  # noqa: BLE001
                ctx.violation({"check": f"export raised {type(e).__name__}"}, {"builder_program": hist}, "to_model() succeeds", repr(e)[:300], clause="export", leg="C2S")
        ctx.note("builder_model_programs_exported", len(mh))
        if len(mh) < 20:
            raise MachineryError(f"only {len(mh)} programs from the builder model")
        from ..catalog import modules
        for name, h in modules():
            try:
                pairs.append(pair(f"cat:{name}", h))
            except Exception as e:  # noqa: BLE001
                ctx.violation({"check": f"export raised {type(e).__name__}"}, {"catalog": name}, "to_model() succeeds", repr(e)[:300], clause="export", leg="C2S")
        for name, h in _two_param_calls():
            pairs.append(pair(f"c12:{name}", h))
        v, res = judge_exports(pairs, wd)
        ctx.add_tlc("C2S ExportCheck", res)
        ctx.traces += len(pairs)
        for p in pairs:
            ctx.evaluations += 1
            f = v[p["name"]]["failing"]
            if f:
                case = {"name": p["name"]}
                if p["name"].startswith("gen:"):
                    case["generator_seed"] = int(p["name"][4:])
                ctx.violation({"check": "+".join(sorted(f))}, case, "ExportFaithful", sorted(f), clause="ModelExport!" + sorted(f)[0], leg="C2S")
        # coverage of the operation-term law: how many exported nodes of each custom operation the judged pairs contain
        from collections import Counter
        seen = Counter()
        def walk(r):
            for c in r["children"]:
                if c["opsym"].startswith("core."):
                    seen[c["opsym"] + ("/poly" if c["ncalleeargs"] > 0 else "")] += 1
                if c["op"] == "Block":
                    seen["Block/%d-successors" % min(len(c["outputs"]), 2)] += 1
                for rr in c["regions"]:
                    walk(rr)
        for p in pairs:
            walk(p["exp"])
        ctx.note("exported_operation_terms", dict(seen))
        for need in ("core.call", "core.call/poly", "core.load_const", "core.make_adt", "Block/2-successors"):
            if not seen[need]:
                raise MachineryError(f"vacuity: no exported {need} among the judged programs")
        if pairs:
            ctx.sample({"name": pairs[0]["name"], "nodes": len(pairs[0]["nodes"]), "exported_top_level": [c["op"] + ":" + c["sym"] for c in pairs[0]["exp"]["children"]]})
        # vacuity guard: corrupted exports must be rejected on the expected clause
        import copy
        neg = []
        for p in [q for q in pairs if not v[q["name"]]["failing"]][:40]:        # (only exports that are faithful to begin with)
            kids = p["exp"]["children"]
            fn = next((c for c in kids if c["op"] == "DefineFunc" and c["regions"] and c["regions"][0]["children"]), None)
            if fn is None:
                continue
            q = copy.deepcopy(p)
            q["name"] = p["name"] + "|drop-port|RegionsMirrorHierarchy/PortsAreValuePorts/MetadataCarried/SymbolParams/ConstInlined/Signatures"
            tgt = next(c for c in q["exp"]["children"] if c["op"] == "DefineFunc" and c["regions"] and c["regions"][0]["children"])
            ch = tgt["regions"][0]["children"][0]
            if ch["outputs"]:
                ch["outputs"] = ch["outputs"][:-1]
                neg.append(q)
            q3 = copy.deepcopy(p)       # the signature term of one node loses its last output (or gains an input): Signatures clause
            q3["name"] = p["name"] + "|sig-arity|RegionsMirrorHierarchy/PortsAreValuePorts/MetadataCarried/SymbolParams/ConstInlined/Signatures"
            t3 = next(c for c in q3["exp"]["children"] if c["op"] == "DefineFunc" and c["regions"] and c["regions"][0]["children"])
            c3 = t3["regions"][0]["children"][0]
            if c3["sig"].get("k") == "fn":
                if c3["sig"]["outs"]:
                    c3["sig"]["outs"] = c3["sig"]["outs"][:-1]
                else:
                    c3["sig"]["ins"] = c3["sig"]["ins"] + [{"k": "ty", "s": "bogus"}]
                neg.append(q3)
            q4 = copy.deepcopy(p)       # the region's type loses track of the function body's inputs
            q4["name"] = p["name"] + "|region-sig|RegionsMirrorHierarchy/PortsAreValuePorts/MetadataCarried/SymbolParams/ConstInlined/Signatures"
            t4 = next(c for c in q4["exp"]["children"] if c["op"] == "DefineFunc" and c["regions"] and c["regions"][0]["children"])
            if t4["regions"][0]["sig"].get("k") == "fn":
                t4["regions"][0]["sig"]["ins"] = t4["regions"][0]["sig"]["ins"] + [{"k": "ty", "s": "bogus"}]
                neg.append(q4)
            q5 = copy.deepcopy(p)       # an operation term whose first argument lost an element
            q5["name"] = p["name"] + "|op-term|RegionsMirrorHierarchy/PortsAreValuePorts/MetadataCarried/SymbolParams/ConstInlined/Signatures"
            t5 = next(c for c in q5["exp"]["children"] if c["op"] == "DefineFunc" and c["regions"] and c["regions"][0]["children"])
            c5 = next((c for c in t5["regions"][0]["children"] if c["opsym"] in ("core.call", "core.make_adt", "core.call_indirect")), None)
            if c5 is not None:
                c5["opargs"][0]["parts"] = c5["opargs"][0]["parts"] + [{"k": "ty", "s": "bogus"}]
                neg.append(q5)
            q2 = copy.deepcopy(p)
            q2["name"] = p["name"] + "|rename-link|LinkPartition"
            t2 = next(c for c in q2["exp"]["children"] if c["op"] == "DefineFunc" and c["regions"] and c["regions"][0]["children"])
            r = t2["regions"][0]
            if r["targets"]:
                r["targets"][0] = "bogus-link-name"
                neg.append(q2)
        if neg:
            vn, _ = judge_exports(neg, wd, "neg")
            for q in neg:
                clause = q["name"].rsplit("|", 1)[1]
                if clause not in vn[q["name"]]["failing"]:
                    raise MachineryError(f"vacuity: corrupted export {q['name']} not rejected: {vn[q['name']]['failing']}")
            ctx.note("corrupted_exports_rejected", len(neg))
        else:
            raise MachineryError("vacuity guard: no export could be corrupted")
    finally:
        cleanup(wd)


def replay(path: str) -> int:
    from ..progen import generate
    body = json.load(open(path))
    c = body["case"]
    if "generator_seed" in c:
        h, g = generate(c["generator_seed"], 28, kind="module")
        print(json.dumps(pair("x", h)["exp"], indent=1)[:3000])
    print(body.get("observed"))
    return 0
