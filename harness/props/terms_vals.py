"""Shared S->C leg over MC_Vals: value expressions (serves C14 and the value part of C05)."""
from __future__ import annotations

import json

from .. import wire as W
from ..common import Ctx, tlc_must_hold
from ..tlc import MachineryError, cleanup, run_tlc, workdir
from .terms_ops import STD_CFG, root_module


def run_vals(ctx: Ctx, what: str, depth: int, maxw: int = 6) -> None:
    from hugr import ops, val
    from hugr.build.dfg import Dfg
    from hugr.hugr.node_port import Node, OutPort
    wd = workdir(f"vals-{what}")
    try:
        root = root_module(wd, "MC_Vals")
        cfg = (f"INIT Init\nNEXT Next\nCONSTANT Depth = {depth}\nCONSTANT MaxW = {maxw}\n" + STD_CFG +
               "INVARIANT Laws\nINVARIANT Emit\nCHECK_DEADLOCK FALSE\n")
        n = [0]

        def sink(ln):
            if not isinstance(ln, dict) or "enc" not in ln:
                return
            n[0] += 1
            ctx.evaluations += 1
            v = W.from_tla(ln["v"])
            enc = W.fix_payload(W.from_tla(ln["enc"]))
            typ = W.from_tla(ln["typ"])
            sig = {"v": v["v"]}
            if json.dumps(v).count('"v"') >= 3:
                ctx.nontriv(v)
            if v["v"] in ("Array", "Right") and len(json.dumps(v)) > 200:
                ctx.sample({"value": v, "expected_type": typ, "expected_encoding": enc})
            try:
                obj = W.build_value(v)
                _check(ctx, what, sig, ln, v, enc, typ, obj, ops, val, Dfg, Node, OutPort)
            except MachineryError:
                raise
            except Exception as e:  # noqa: BLE001
                ctx.violation(dict(sig, what=f"exception {type(e).__name__}"), ln, "no exception", repr(e)[:300], clause="implementation raised")
        res = run_tlc(root, cfg, wd, workers=1, line_sink=sink, heap="6g", timeout=3000)
        tlc_must_hold(ctx, f"M+S2C value terms depth<={depth}", res, "HugrStd value laws")
        if n[0] < 200:
            raise MachineryError(f"only {n[0]} value terms emitted")
        ctx.exhaustive = True
    finally:
        cleanup(wd)


def _check(ctx, what, sig, ln, v, enc, typ, obj, ops, val, Dfg, Node, OutPort):
    def bad(w, exp, obs, clause):
        ctx.violation(dict(sig, what=w), ln, exp, obs, clause=clause)
    e = W.enc_value(obj)
    if W.canon(W.strip_hugr(e)) != W.canon(W.strip_hugr(enc)):
        return bad("encode", enc, e, "Enc(v) = EncValS(v)")
    if what == "type":
        # C14: reported type = the type the serialized form inhabits
        t = obj.type_()
        if not W.same_t(W.enc_type(t), typ):
            return bad("type_()", typ, W.enc_type(t), "TypeOfS")
        if ln["std"]:
            ex = obj.to_value()
            if ln["ext"] not in ex.extensions:
                return bad("defining extension named", ln["ext"], list(ex.extensions), "DefExt(v) in extensions")
        c = ops.Const(obj)
        k = W.kind_json(c.port_kind(OutPort(Node(0), 0)))
        if k[0] != "Const" or not W.same_t(W.enc_type(c.port_kind(OutPort(Node(0), 0)).ty), typ):
            return bad("Const static port", ["Const", typ], k, "StaticType(Const(v))")
        d = Dfg()
        ld = d.load(obj)
        lop = d.hugr[ld].op
        s = lop.outer_signature()
        if len(s.input) != 0 or len(s.output) != 1 or not W.same_t(W.enc_type(s.output[0]), typ):
            return bad("LoadConstant built by load()", typ, [W.enc_type(t) for t in s.output], "DfSig(LoadConstant)")
        pt = d.hugr.port_type(ld.out(0))
        if pt is None or not W.same_t(W.enc_type(pt), typ):
            return bad("port_type of load", typ, None if pt is None else W.enc_type(pt), "DfSig(LoadConstant)")
        links = list(d.hugr.linked_ports(ld.inp(0)))
        if len(links) != 1 or not isinstance(d.hugr[links[0].node].op, ops.Const):
            return bad("load wired to its Const", "one link from the Const", str(links), "load")
        # the same in ONE long-lived container into which every earlier value has been loaded already: each load gets its own constant
        sh = _SHARED_DFG.setdefault("d", Dfg())
        ld2 = sh.load(obj)
        src = [p.node for p in sh.hugr.linked_ports(ld2.inp(0))]
        pt2 = sh.hugr.port_type(ld2.out(0))
        cval = sh.hugr[src[0]].op.val if len(src) == 1 and isinstance(sh.hugr[src[0]].op, ops.Const) else None
        if cval is None or pt2 is None or not W.same_t(W.enc_type(pt2), typ) or W.canon(W.strip_hugr(W.enc_value(cval))) != W.canon(W.strip_hugr(enc)):
            return bad("load() into a container that already holds other constants", {"typ": typ, "enc": enc},
                       {"typ": None if pt2 is None else W.enc_type(pt2), "enc": None if cval is None else W.enc_value(cval)}, "load: Const(v) + LoadConstant(TypeOfS(v))")
        # the helper constructors take Iterables: a one-shot iterator must give the same value
        obj1 = W.build_value(v, once=True)
        e1 = W.enc_value(obj1)
        if W.canon(W.strip_hugr(e1)) != W.canon(W.strip_hugr(enc)) or not W.same_t(W.enc_type(obj1.type_()), typ):
            return bad("built from one-shot iterators", {"enc": enc, "typ": typ}, {"enc": e1, "typ": W.enc_type(obj1.type_())}, "TypeOfS / EncValS (Iterable arguments)")
        # equal elements given as ONE Python object (`[x] * n`, a reused tuple): every position still counts
        W._SHARED.clear()
        obj2 = W.build_value(v, once="shared")
        e2 = W.enc_value(obj2)
        if W.canon(W.strip_hugr(e2)) != W.canon(W.strip_hugr(enc)) or not W.same_t(W.enc_type(obj2.type_()), typ):
            return bad("built with shared element objects", {"enc": enc, "typ": typ}, {"enc": e2, "typ": W.enc_type(obj2.type_())}, "TypeOfS / EncValS (one object at several positions)")
        # lists handed to the constructors and changed by the caller afterwards do not reach into the value
        W._ALIASED.clear()
        obj3 = W.build_value(v, once="aliased")
        W.poison_aliased()
        e3 = W.enc_value(obj3)
        if W.canon(W.strip_hugr(e3)) != W.canon(W.strip_hugr(enc)) or not W.same_t(W.enc_type(obj3.type_()), typ):
            return bad("built from lists the caller changed afterwards", {"enc": enc, "typ": typ}, {"enc": e3, "typ": W.enc_type(obj3.type_())}, "TypeOfS / EncValS (value fixed at construction)")
        # ... and the constant keeps type, fields and extension sets when the HUGR holding it is saved and loaded
        from hugr.hugr import Hugr
        d.set_outputs(ld)
        h2 = Hugr.load_json(d.hugr.to_json())
        consts = [data.op for _, data in h2.nodes() if isinstance(data.op, ops.Const)]
        if len(consts) != 1:
            return bad("constant after save/load", "one Const", len(consts), "Load(Serialize)")
        v2 = consts[0].val
        if not W.same_t(W.enc_type(v2.type_()), typ):
            return bad("type_() after save/load", typ, W.enc_type(v2.type_()), "TypeOfS invariant under Load.Serialize")
        if _ext_shape(obj, val) != _ext_shape(v2, val):
            return bad("extension sets after save/load", _ext_shape(obj, val), _ext_shape(v2, val), "DefExt(v) in extensions (after Load.Serialize)")
        return
    # ---- codec (C05)
    back = W.dec_value(enc)
    pb = W.proj_value(back)
    if W.canon(W.strip_hugr(pb)) != W.canon(W.strip_hugr(enc)):
        return bad("decode attributes", enc, pb, "Dec(Enc(v)) attribute by attribute")
    e2 = W.enc_value(back)
    if W.canon(W.strip_hugr(e2)) != W.canon(W.strip_hugr(enc)):
        return bad("re-encode", enc, e2, "Enc(Dec(Enc(v))) = Enc(v)")
    if not W.same_t(W.enc_type(back.type_()), typ):
        return bad("type after decode", typ, W.enc_type(back.type_()), "TypeOf invariant under Dec.Enc")
    if v["v"] in ("UnitSum", "Some", "None", "Left", "Right", "Tuple"):
        gen = val.Sum(obj.tag, W.build_type(W.norm_t(typ)) if False else obj.typ, list(obj.vals)) if v["v"] != "Tuple" else None
        from hugr import tys as T
        general = val.Sum(obj.tag, T.Sum([list(r) for r in obj.typ.variant_rows]), list(obj.vals))
        if not (obj == general and general == obj and obj.type_() == general.type_()
                and obj.type_().type_bound() == general.type_().type_bound()):
            return bad("sugar value = general sum", "equal with same type and bound", "differs", "Sugar(v) = General(v)")
        jv = json.dumps(v)
        opaque_inside = '"Ext"' in jv or any(f'"v": "{k}"' in jv for k in ("Int", "Float", "String", "Array", "List", "StaticArray", "Function"))
        if v["v"] != "Tuple" and not opaque_inside and not (back == obj):   # extension types / constants come back opaque
            return bad("decoded equals original", "equal", "not equal", "Dec(Enc(v)) = v")


_SHARED_DFG: dict = {}


def _ext_shape(x, val):
    """the tree of extension constants inside a value: (name, sorted extension set) per extension constant, nesting per sum / tuple"""
    if hasattr(x, "to_value") and not isinstance(x, val.Extension):
        x = x.to_value()
    if isinstance(x, val.Extension):
        return ["ext", x.name, sorted(x.extensions)]
    if isinstance(x, val.Function):
        return ["fn"]
    vals = getattr(x, "vals", None)
    if vals is not None:
        return ["sum", [_ext_shape(y, val) for y in vals]]
    return ["other", type(x).__name__]
