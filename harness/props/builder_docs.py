"""Documents produced by builder programs (catalogue modules, programs of the random generator incl. calls of row-polymorphic functions),
judged by TLC (DocCheck / HugrValidity) for the part of C03 that speaks about port addressing: every edge end addresses a port its
operation has, and both ends have the same kind - a static edge that is not placed right after the value inputs, or an order edge that is
not at the first port after those, meets a port of another kind (or none)."""
from __future__ import annotations

import json

from ..common import Ctx
from ..docs import judge
from ..tlc import MachineryError, cleanup, workdir


def run(ctx: Ctx, focus: str) -> None:
    from ..catalog import modules
    from ..progen import generate
    quick = ctx.tier == "quick"
    docs = []
    for name, h in modules():
        docs.append((f"catalogue:{name}", json.loads(h.to_json())))
    # directed history: a stray link to a port beyond an operation's arity, removed again, then state-order edges on that node
    try:
        from hugr import tys
        from hugr.build.dfg import Dfg
        from hugr.std.logic import Not
        d = Dfg(tys.Bool)
        a = d.add_op(Not, d.inputs()[0])
        b = d.add_op(Not, a)
        c = d.add_op(Not, b)
        d.hugr.add_link(a.out(3), c.inp(4))
        d.hugr.delete_link(a.out(3), c.inp(4))
        d.add_state_order(a, c)
        d.add_state_order(a, b)
        d.set_outputs(c)
        docs.append(("directed:stray-link-removed-then-order-edges", json.loads(d.hugr.to_json())))
    except Exception as e:  # noqa: BLE001
        ctx.violation({"source": "directed", "check": f"exception {type(e).__name__}"}, {"program": "stray link removed, then order edges"}, "accepted", repr(e)[:300],
                      clause="HugrStore", leg="C2S")
    feats = set()
    for k in range(80 if quick else 800):
        seed = ctx.seed * 7001 + k
        try:
            h, g = generate(seed, 30)
            docs.append((f"gen:{seed}", json.loads(h.to_json())))
            feats |= g.features
        except Exception:  # noqa: BLE001  (refusals / exceptions of well-formed programs are C01's business)
            continue
    if "row-poly-call" not in feats or "call" not in feats:
        raise MachineryError(f"builder documents: generator features {sorted(feats)}")
    wd = workdir("bdocs")
    try:
        verdicts, res = judge(docs, wd, "bdocs", timeout=3000)
        ctx.add_tlc(f"C2S builder documents: port addressing ({len(docs)} documents)", res)
        for n, d in docs:
            ctx.evaluations += 1
            f = set(verdicts[n]["failing"])
            if len(d["edges"]) >= 3:
                ctx.nontriv(n)
            if f & {"IndexSane", "PortAddressing"}:
                ctx.violation({"source": n.split(":")[0], "check": "port addressing", "clauses": "+".join(sorted(f & {"IndexSane", "PortAddressing"}))},
                              {"program": n, "document": d}, "every edge end addresses a port of the same kind that its operation has", sorted(f),
                              clause="HugrValidity!PortAddressingOK", leg="C2S")
        ctx.note("builder_documents_judged", len(docs))
    finally:
        cleanup(wd)
