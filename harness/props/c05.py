"""C05 — types, values and operations survive encoding and decoding unchanged (spec: HugrWire / HugrStd; MC_Types, MC_Ops, MC_Vals)."""
from __future__ import annotations

import json

from ..common import Ctx
from .terms_ops import run_ops
from .terms_types import run_types
from .terms_vals import run_vals


def run(ctx: Ctx) -> None:
    quick = ctx.tier == "quick"
    ctx.rule = ("TLC enumerates object-view terms (types incl. sugar and definition-backed types, params, args; all 21 op kinds + sugar "
                "ops; values incl. std constants) with their specified wire encoding; each is built through the public constructors, "
                "encoded, decoded with the pydantic models, projected attribute by attribute and re-encoded; derived facts compared; "
                "sugar forms compared with their general forms. Foreign documents: see the ForeignWrite leg. "
                "non-trivial = compound term.")
    ctx.assumptions = ["set-typed fields (runtime_reqs, extension_delta, extensions) compared as sets",
                       "Conditional/Case/CFG extension deltas are not attributes of the Python data model and are generated empty"]
    run_types(ctx, "codec", rowmax=2, depth=2 if quick else 3, rowmax2=1 if quick else 2)
    run_ops(ctx, "codec")
    run_vals(ctx, "codec", depth=2 if quick else 3)
    try:
        from . import foreign
    except ImportError:
        foreign = None
    if foreign is not None:
        foreign.run(ctx)


def replay(path: str) -> int:
    print(json.dumps(json.load(open(path)), indent=1)[:5000])
    return 0
