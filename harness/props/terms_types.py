"""Shared S->C leg over MC_Types: type / param / arg terms (serves C05 and C07)."""
from __future__ import annotations

import json

from .. import wire as W
from ..common import REPO, Ctx, tlc_must_hold
from ..tlc import MachineryError, cleanup, run_tlc, workdir


def tla_bspec(b) -> str:
    if b["b"] == "Explicit":
        return f'[b |-> "Explicit", bound |-> "{b["bound"]}"]'
    return f'[b |-> "FromParams", indices |-> <<{", ".join(map(str, b["indices"]))}>>]'


def std_bspecs():
    d = REPO / "specification" / "std_extensions" / "collections"
    out = {}
    for f, n in (("array.json", "array"), ("list.json", "List"), ("static_array.json", "static_array")):
        out[n] = json.loads((d / f).read_text())["types"][n]["bound"]
    return out


def run_types(ctx: Ctx, what: str, rowmax: int, depth: int, rowmax2: int = 1) -> None:
    """what = 'codec' (C05) or 'bound' (C07)."""
    from hugr import tys
    from hugr.std.collections.array import Array
    from hugr.std.collections.list import List
    from hugr.std.collections.static_array import StaticArray
    bs = std_bspecs()
    wd = workdir(f"types-{what}")
    try:
        (wd / "MC_Types_run.tla").write_text(
            "---- MODULE MC_Types_run ----\nEXTENDS MC_Types\n"
            f"StdArray == {tla_bspec(bs['array'])}\nStdList == {tla_bspec(bs['List'])}\nStdStatic == {tla_bspec(bs['static_array'])}\n====\n")
        cfg = (f"INIT Init\nNEXT Next\nCONSTANT RowMax = {rowmax}\nCONSTANT Depth = {depth}\nCONSTANT RowMax2 = {rowmax2}\nCONSTANT ArrayBSpec <- StdArray\n"
               "CONSTANT ListBSpec <- StdList\nCONSTANT StaticArrayBSpec <- StdStatic\nINVARIANT Laws\nINVARIANT Emit\nCHECK_DEADLOCK FALSE\n")
        n = [0]

        def sink(ln):
            if not isinstance(ln, dict) or "kind" not in ln:
                return
            n[0] += 1
            ctx.evaluations += 1
            k = ln["kind"]
            t = W.from_tla(ln["t"])
            try:
                if k == "type":
                    _check_type(ctx, what, ln, t, tys, Array, List, StaticArray)
                elif what == "codec" and k == "param":
                    _check_simple(ctx, ln, t, W.build_param, W.enc_param, W.dec_param, W.proj_param, "param")
                elif what == "codec" and k == "arg":
                    _check_simple(ctx, ln, t, W.build_arg, W.enc_arg, W.dec_arg, W.proj_arg, "arg")
            except MachineryError:
                raise
            except Exception as e:  # noqa: BLE001 - an exception raised by the implementation is an observation
                ctx.violation({"kind": k, "what": f"exception {type(e).__name__}", "t": t.get("t", t.get("tp", t.get("tya")))},
                              ln, "no exception", repr(e)[:300], clause="implementation raised")
        res = run_tlc("MC_Types_run", cfg, wd, workers=1, line_sink=sink, heap="6g", timeout=3000)
        tlc_must_hold(ctx, f"M+S2C type terms rows<={rowmax} depth<={depth}", res, "HugrWire type laws")
        if n[0] < 500:
            raise MachineryError(f"only {n[0]} terms emitted")
        ctx.exhaustive = True
    finally:
        cleanup(wd)


def _nontrivial(t) -> bool:
    s = json.dumps(t)
    return s.count('"t"') >= 2 or '"args": [{' in s


def _check_simple(ctx, ln, t, build, enc, dec, proj, kind):
    obj = build(t)
    e = enc(obj)
    ctx.nontriv(t)
    if W.canon(e) != W.canon(t):
        ctx.violation({"kind": kind, "what": "encode", "t": t.get("tp", t.get("tya"))}, ln, t, e, clause="Enc(x) = x")
        return
    back = dec(t)
    if W.canon(proj(back)) != W.canon(t):
        ctx.violation({"kind": kind, "what": "decode attributes", "t": t.get("tp", t.get("tya"))}, ln, t, proj(back), clause="Dec(Enc(x)) = x")
        return
    if W.canon(enc(back)) != W.canon(t) or back != obj:
        ctx.violation({"kind": kind, "what": "re-encode/equality", "t": t.get("tp", t.get("tya"))}, ln, t, enc(back), clause="Enc(Dec(Enc(x))) = Enc(x)")


def _check_type(ctx, what, ln, t, tys, Array, List, StaticArray):
    obj = W.build_type(t)
    expb = ln["bound"]
    enc_exp = W.from_tla(ln["enc"])
    sig = {"kind": "type", "t": t["t"] + ("/" + t["s"] if t["t"] == "Sum" else "")}
    if _nontrivial(t):
        ctx.nontriv(t)
    if t["t"] in ("Either", "Ext") and len(json.dumps(t)) > 150:
        ctx.sample({"term": t, "expected_encoding": enc_exp, "expected_bound": expb})
    if what == "bound":
        b = obj.type_bound().value
        if b != expb:
            ctx.violation(dict(sig, what="type_bound"), ln, expb, b, clause="HugrWire!Bound")
            return
        e = W.enc_type(obj)
        if t["t"] == "Ext" and e.get("bound") != expb:
            ctx.violation(dict(sig, what="serialized bound"), ln, expb, e.get("bound"), clause="Desugar(x).bound = Bound(x)")
            return
        if t["t"] == "Either":        # Either(left: Iterable, right: Iterable): one-shot iterators denote the same type
            alt = tys.Either(iter(W.build_row(t["left"])), iter(W.build_row(t["right"])))
            if alt.type_bound().value != expb or W.canon(W.enc_type(alt)) != W.canon(enc_exp):
                ctx.violation(dict(sig, what="Either built from one-shot iterators"), ln, [expb, enc_exp], [alt.type_bound().value, W.enc_type(alt)], clause="HugrWire!Bound (Iterable arguments)")
                return
        db = W.dec_type(enc_exp).type_bound().value
        if db != expb:
            ctx.violation(dict(sig, what="bound after decode"), ln, expb, db, clause="Bound(Dec(Enc(x))) = Bound(x)")
            return
        # containers
        if t["t"] != "R":
            ab = Array(obj, 2).type_bound().value
            lb = List(obj).type_bound().value
            if ab != ln["array_bound"] or lb != ln["list_bound"]:
                ctx.violation(dict(sig, what="Array/List bound"), ln, [ln["array_bound"], ln["list_bound"]], [ab, lb], clause="Bound(ArrayOf(x))")
                return
            # history: the container is built over an element that is changed in place afterwards (its type objects are mutable);
            # what it reports and serializes must follow the element as it is now. Element: Sum([[]]) -> Sum([[x]]), whose bound is x's.
            for mk, nm in ((List, "List"), (lambda e: Array(e, 2), "Array")):
                elem = tys.Sum([[]])
                cont = mk(elem)
                cont.type_bound()
                W.enc_type(cont)
                elem.variant_rows[0].append(obj)
                if cont.type_bound().value != expb or W.enc_type(cont).get("bound") != expb:
                    ctx.violation(dict(sig, what=f"{nm} bound after its element was changed in place"), ln, expb,
                                  [cont.type_bound().value, W.enc_type(cont).get("bound")], clause="Bound(ListOf / ArrayOf(x)) follows x")
                    return
            # the size does not enter the bound: empty arrays and arrays of symbolic length too
            for size, how in ((0, "size 0"), (tys.VariableArg(0, tys.BoundedNatParam()), "symbolic size")):
                a0 = Array(obj, size)
                if a0.type_bound().value != ln["array_bound"] or W.enc_type(a0).get("bound") != ln["array_bound"]:
                    ctx.violation(dict(sig, what=f"Array bound ({how})"), ln, ln["array_bound"], [a0.type_bound().value, W.enc_type(a0).get("bound")],
                                  clause="Bound(ArrayOf(x)) independent of the size argument")
                    return
            ae = W.enc_type(Array(obj, 2))
            if W.canon(ae) != W.canon(W.from_tla(ln["array_enc"])):
                ctx.violation(dict(sig, what="Array encoding"), ln, ln["array_enc"], ae, clause="Desugar(ArrayOf(x))")
                return
            try:
                StaticArray(obj)
                ok = True
            except ValueError:
                ok = False
            if ok != ln["static_array_ok"]:
                ctx.violation(dict(sig, what="StaticArray accepts"), ln, ln["static_array_ok"], ok, clause="StaticArray(elem) iff Bound(elem) = C")
        return
    # ---- codec (C05)
    e = W.enc_type(obj)
    if W.canon(e) != W.canon(enc_exp):
        ctx.violation(dict(sig, what="encode"), ln, enc_exp, e, clause="Enc(x) = Desugar(x)")
        return
    back = W.dec_type(enc_exp)
    pb = W.proj_type(back)
    if W.canon(pb) != W.canon(enc_exp):
        ctx.violation(dict(sig, what="decode attributes"), ln, enc_exp, pb, clause="Dec(Enc(x)) = Opaquify(x), attribute by attribute")
        return
    e2 = W.enc_type(back)
    if W.canon(e2) != W.canon(enc_exp):
        ctx.violation(dict(sig, what="re-encode"), ln, enc_exp, e2, clause="Enc(Dec(Enc(x))) = Enc(x)")
        return
    if back.type_bound().value != ln["bound"] or obj.type_bound().value != ln["bound"]:
        ctx.violation(dict(sig, what="bound preserved"), ln, ln["bound"], [obj.type_bound().value, back.type_bound().value], clause="Bound invariant under Dec.Enc")
        return
    if ln["sugar"] and t["t"] != "Ext":
        gen = W.build_type(t, general=True)
        if not (obj == gen and gen == obj and obj.type_bound() == gen.type_bound() and W.canon(W.enc_type(gen)) == W.canon(enc_exp)
                if not (t["t"] == "Sum" and t["s"] == "Unit") else (obj == gen and gen == obj and obj.type_bound() == gen.type_bound())):
            ctx.violation(dict(sig, what="sugar = general"), ln, "equal, same bound and encoding", "differs", clause="Sugar(x) = General(x)")
            return
    if t["t"] == "Either":
        # Either(left: Iterable[Type], right: Iterable[Type]): tuples and one-shot iterators denote the same type as lists
        for how, mk in (("tuples", tuple), ("one-shot iterators", iter)):
            alt = tys.Either(mk(W.build_row(t["left"])), mk(W.build_row(t["right"])))
            gen = W.build_type(t, general=True)
            if not (alt == obj and obj == alt and alt == gen and gen == alt and W.canon(W.enc_type(alt)) == W.canon(enc_exp)
                    and alt.type_bound() == obj.type_bound() and ('"Ext"' in json.dumps(t) or W.dec_type(W.enc_type(alt)) == alt)):
                ctx.violation(dict(sig, what=f"Either built from {how}"), ln, "the same type as from lists", W.enc_type(alt), clause="Sugar(x) = General(x) (Iterable arguments)")
                return
    if '"Ext"' not in json.dumps(t) and not (back == obj):   # extension types come back in their opaque form
        ctx.violation(dict(sig, what="decoded equals original"), ln, "equal", "not equal", clause="Dec(Enc(x)) = x")
