"""C04 — the HUGR graph store agrees with a sequential port-multigraph model (spec: HugrStore.tla)."""
from __future__ import annotations

import json

from ..common import Ctx, tlc_must_hold
from ..store_adapter import ImplError, StoreAdapter, compare_store
from ..tlc import MachineryError, cleanup, run_tlc, workdir
from ..traces import validate_traces


def cfg(optoks, metas, offsets, maxnodes, maxlinks, stores, insert, maxhist, counts, emit=None, view=True, laws=True, stop=True, samplek=1):
    c = ["INIT MCInit", "NEXT MCNext", f"CONSTANT OpToks = {{{', '.join(chr(34) + o + chr(34) for o in optoks)}}}",
         f"CONSTANT MetaToks = {{{', '.join(chr(34) + o + chr(34) for o in metas)}}}", f"CONSTANT Offsets <- {offsets}",
         f"CONSTANT MaxNodes = {maxnodes}", f"CONSTANT MaxLinks = {maxlinks}", f"CONSTANT Stores = {{{', '.join(map(str, stores))}}}",
         f"CONSTANT AllowInsert = {'TRUE' if insert else 'FALSE'}", f"CONSTANT MaxHist = {maxhist}", f"CONSTANT Counts <- {counts}", f"CONSTANT StopAfterInsert = {'TRUE' if stop else 'FALSE'}", f"CONSTANT SampleK = {samplek}",
         "INVARIANT Inv", "CHECK_DEADLOCK FALSE"]
    if laws:
        c.append("PROPERTY MCStepLaws")
    if view:
        c.append("VIEW View")
    if emit == "state":
        c.append("INVARIANT EmitState")
    elif emit == "insert":
        c.append("INVARIANT EmitInsertState")
    elif emit == "step":
        c.append("ACTION_CONSTRAINT EmitStep")
    return "\n".join(c) + "\n"


class Replayer:
    """Replays emitted behaviours on real stores; `focus` selects which properties' signature is used."""

    def __init__(self, ctx: Ctx, offsets, pid: str):
        self.ctx, self.offsets, self.pid = ctx, offsets, pid
        self.cur = None
        self.cur_hist: list = []
        self.broken = False
        self.n = 0

    def _fresh(self):
        self.cur = StoreAdapter(self.offsets)
        self.cur_hist = []
        self.broken = False

    def _step(self, ev, exp_res, exp_obs, line) -> bool:
        """apply one event and compare; returns False when the behaviour diverged (stop following it)"""
        ctx = self.ctx
        sig0 = {"action": ev["a"]}
        try:
            r = self.cur.apply(ev)
        except ImplError as e:
            ctx.violation(dict(sig0, field="exception"), line, "call succeeds", str(e)[:300], clause=f"HugrStore!{ev['a']}")
            return False
        self.cur_hist.append(ev)
        if exp_res is not None:
            er = dict(exp_res)
            if er.get("k") == "mapping":
                er["map"] = {str(k): v for k, v in (er["map"].items() if isinstance(er["map"], dict) else enumerate(er["map"]))}
            if r.get("k") != er.get("k") or (er.get("k") == "mapping" and r["map"] != er["map"]):
                ctx.violation(dict(sig0, field="result"), line, er, r, clause=f"result of {ev['a']}")
                return False
        if exp_obs is not None:
            ob = self.cur.project()
            for which in ("a", "b"):
                d = compare_store(exp_obs[which], ob[which])
                if d:
                    ctx.violation(dict(sig0, field=d[0]), line, d[1], d[2], clause=f"HugrStore!ObsS.{d[0]} (store {which})")
                    return False
        return True

    def feed_path(self, ln):
        """a self-contained line: full history + expected final observation"""
        hist = ln["hist"]
        self._fresh()
        self.n += 1
        self.ctx.evaluations += 1
        if any(e["a"] in ("DeleteLink", "DeleteNode", "InsertHugr") for e in hist) or sum(e["a"] == "AddLink" for e in hist) >= 2:
            self.ctx.nontriv(hist)
        if len(hist) >= 5:
            self.ctx.sample({"hist": hist, "expected_links": ln["obs"]["a"]["links"]})
        for k, ev in enumerate(hist):
            last = k == len(hist) - 1
            if not self._step(ev, ln["res"] if last else None, ln["obs"] if last else None, ln):
                return

    def feed_step(self, ln):
        """simulation: lines extend the previous one by one event"""
        n = ln["n"]
        if n == 1 or self.cur is None:
            self._fresh()
        elif self.broken or n != len(self.cur_hist) + 1:
            if self.broken:
                return
            raise MachineryError(f"simulation lines out of order: step {n} after {len(self.cur_hist)}")
        self.n += 1
        self.ctx.evaluations += 1
        line = {"hist": self.cur_hist + [ln["e"]], "res": ln["res"], "obs": ln["obs"]}
        if n % 10 == 0:
            self.ctx.nontriv(line["hist"])
        if not self._step(ln["e"], ln["res"], ln["obs"], line):
            self.broken = True


def gen_traces(ctx: Ctx, seed: int, n_traces: int, lo: int, hi: int, insert_bias: float = 0.0):
    """Random valid-by-construction call histories executed on real stores; the driver keeps its own book-keeping
    of live / childless nodes and never asks the implementation which arguments are legal."""
    import random
    rng = random.Random(seed)
    traces = []
    nviol = 0
    A = lambda i, p, o="a", cnt=-1, m="none": {"a": "AddNode", "i": i, "p": p, "o": o, "cnt": cnt, "m": m}  # noqa: E731
    L = lambda i, sn, so, dn, do: {"a": "AddLink", "i": i, "sn": sn, "so": so, "dn": dn, "do": do}           # noqa: E731
    # directed prefixes: preconditions that random choice reaches rarely (index reuse inverting child order before an insertion,
    # fan-in / fan-out with a deletion in the middle, parallel order links, deletion of a multi-linked node)
    SCRIPTS = [
        # a stray link to a port beyond the operation's arity, removed again, then order links: every link attaches to an existing port
        [A(1, 0), A(1, 0), L(1, 1, 2, 2, 2), {"a": "DeleteLink", "i": 1, "sn": 1, "so": 2, "dn": 2, "do": 2}, {"a": "AddOrderLink", "i": 1, "sn": 1, "dn": 2},
         L(1, 1, 0, 2, 0)],
        [A(2, 0), A(2, 0), A(2, 0), {"a": "DeleteNode", "i": 2, "n": 1}, A(2, 0, m="m"), A(1, 0), {"a": "InsertHugr", "i": 1, "p": 1}],
        [A(1, 0), A(1, 0), A(1, 0), L(1, 1, 0, 3, 0), L(1, 2, 0, 3, 0), L(1, 2, 1, 3, 0), {"a": "DeleteLink", "i": 1, "sn": 2, "so": 0, "dn": 3, "do": 0}],
        [A(1, 0), A(1, 0), L(1, 1, 0, 2, 0), L(1, 1, 0, 2, 1), L(1, 1, 0, 2, 0), {"a": "DeleteLink", "i": 1, "sn": 1, "so": 0, "dn": 2, "do": 0}],
        [A(2, 0), A(2, 0), L(2, 1, -1, 2, -1), L(2, 1, -1, 2, -1), {"a": "AddOrderLink", "i": 2, "sn": 1, "dn": 2}, A(1, 0), {"a": "InsertHugr", "i": 1, "p": 0}],
        [A(1, 0), A(1, 0), A(1, 0), L(1, 1, 0, 2, 0), L(1, 3, 0, 2, 0), L(1, 2, -1, 3, -1), L(1, 2, 1, 1, 1), {"a": "DeleteNode", "i": 1, "n": 2}, A(1, 0, cnt=2)],
        [A(2, 0, cnt=2), A(2, 1, cnt=0), A(1, 0), {"a": "InsertHugr", "i": 1, "p": 1}, {"a": "InsertHugr", "i": 1, "p": 0}],
    ]
    for tno in range(n_traces):
        script = [dict(e) for e in SCRIPTS[tno % len(SCRIPTS)]] if tno < 2 * len(SCRIPTS) else []
        ad = StoreAdapter((-1, 0, 1, 2))
        live = {1: [0], 2: [0]}
        kids = {1: {0: 0}, 2: {0: 0}}
        par = {1: {}, 2: {}}
        dead = {1: [], 2: []}
        links = {1: [], 2: []}
        nxt = {1: 1, 2: 1}
        tr = []
        for _ in range(rng.randint(lo, hi)):
            i = 1 if rng.random() < 0.7 else 2
            r = rng.random()
            if script:
                ev = script.pop(0)
                i = ev["i"]
                r = 2.0
            elif insert_bias and rng.random() < insert_bias and len(live[1]) + len(live[2]) <= 16 and len(live[2]) <= 6:
                r = 0.99
            if r > 1.5:
                pass
            elif r < 0.25 and len(live[i]) < 12:
                ev = {"a": "AddNode", "i": i, "p": rng.choice(live[i]), "o": rng.choice(["a", "b", "const"]),
                      "cnt": rng.choice([-1, 0, 2]), "m": rng.choice(["none", "m", "u"])}
                if ev["o"] == "const":
                    ev["cnt"] = -1
            elif r < 0.55:
                ev = {"a": "AddLink", "i": i, "sn": rng.choice(live[i]), "so": rng.choice([-1, 0, 0, 1, 2]),
                      "dn": rng.choice(live[i]), "do": rng.choice([-1, 0, 1, 1, 2])}
                if links[i] and rng.random() < 0.4:      # fan-out / fan-in / repeated link on an existing port
                    l0 = rng.choice(links[i])
                    ev.update(sn=l0[0], so=l0[1]) if rng.random() < 0.5 else ev.update(dn=l0[2], do=l0[3])
                    if rng.random() < 0.3:
                        ev.update(sn=l0[0], so=l0[1], dn=l0[2], do=l0[3])
            elif r < 0.60:
                ev = {"a": "AddOrderLink", "i": i, "sn": rng.choice(live[i]), "dn": rng.choice(live[i])}
            elif r < 0.62:
                # metadata is set up before any insertion only: the copies made by insert_hugr share their metadata dictionaries with
                # the inserted HUGR, so a later in-place edit shows in both - a behaviour outside what C04 / C08 quantify over
                if any(x["a"] == "InsertHugr" for x in tr):
                    continue
                ev = {"a": "SetMeta", "i": i, "n": rng.choice(live[i] + [0]), "m": rng.choice(["none", "m", "u"])}
            elif r < 0.80:
                if links[i] and rng.random() < 0.85:
                    l0 = rng.choice(links[i])
                    ev = {"a": "DeleteLink", "i": i, "sn": l0[0], "so": l0[1], "dn": l0[2], "do": l0[3]}
                else:
                    ev = {"a": "DeleteLink", "i": i, "sn": rng.choice(live[i]), "so": rng.choice([-1, 0, 1]),
                          "dn": rng.choice(live[i]), "do": rng.choice([-1, 0, 1])}
            elif r < 0.92:
                cand = [n for n in live[i] if n != 0 and kids[i][n] == 0]
                if not cand:
                    continue
                ev = {"a": "DeleteNode", "i": i, "n": rng.choice(cand)}
            elif r < 0.95 and dead[i]:
                ev = {"a": "TouchDead", "i": i, "n": rng.choice(dead[i])}
            elif len(live[1]) + len(live[2]) <= 14 and len(live[2]) <= 5:
                ev = {"a": "InsertHugr", "i": 1, "p": rng.choice(live[1])}
            else:
                continue
            try:
                res = ad.apply(ev)
            except ImplError as e:
                ctx.violation({"action": ev["a"], "field": "exception"}, {"hist": [{k: v for k, v in x.items() if k not in ("obs", "res")} for x in tr] + [ev]},
                              "call succeeds", str(e)[:300], clause=f"HugrStore!{ev['a']}", leg="C2S")
                nviol += 1
                break
            # driver book-keeping (mirrors the documented meaning of the calls, not the implementation)
            a = ev["a"]
            if a == "AddNode":
                m = nxt[i]; nxt[i] += 1
                live[i].append(m); kids[i][m] = 0; kids[i][ev["p"]] += 1; par[i][m] = ev["p"]
            elif a == "AddLink":
                links[i].append((ev["sn"], ev["so"], ev["dn"], ev["do"]))
            elif a == "AddOrderLink":
                if (ev["sn"], -1, ev["dn"], -1) not in links[i]:
                    links[i].append((ev["sn"], -1, ev["dn"], -1))
            elif a == "DeleteLink":
                t = (ev["sn"], ev["so"], ev["dn"], ev["do"])
                if t in links[i]:
                    links[i].remove(t)
            elif a == "DeleteNode":
                n = ev["n"]
                live[i].remove(n); dead[i].append(n); kids[i][par[i][n]] -= 1
                links[i] = [l for l in links[i] if l[0] != n and l[2] != n]
            elif a == "InsertHugr":
                base = nxt[1]
                order = sorted(live[2])
                mp = {b: base + k for k, b in enumerate(order)}
                for b in order:
                    m = mp[b]
                    live[1].append(m); kids[1][m] = kids[2][b]
                    par[1][m] = ev["p"] if b == 0 else mp[par[2][b]]
                kids[1][ev["p"]] += 1
                nxt[1] += len(order)
                links[1] += [(mp[l[0]], l[1], mp[l[2]], l[3]) for l in links[2]]
            ob = ad.project()
            probs = (ob["a"].get("problems") or []) + (ob["b"].get("problems") or [])
            if probs:
                ctx.violation({"action": a, "field": "queries"}, {"hist": [{k: v for k, v in x.items() if k not in ("obs", "res")} for x in tr] + [ev]},
                              "all queries consistent with links()", probs[:3], clause="HugrStore!ObsS.queries", leg="C2S")
                nviol += 1
                break
            for w in ("a", "b"):
                ob[w].pop("problems", None)
                ob[w].pop("dead", None)
            tr.append(dict(ev, res=res, obs=ob))
        if tr:
            traces.append(tr)
    return traces, nviol


def run(ctx: Ctx) -> None:
    quick = ctx.tier == "quick"
    ctx.rule = ("leg M: TLC explores the complete graph of HugrStore (invariants + per-action laws) for the stated bounds. S->C: (1) one "
                "behaviour per distinct model state (first BFS path) replayed on a real Hugr, all C04 queries compared with the model after "
                "the last call; (2) random walks of the model (both stores, incl. insert_hugr) replayed step by step with the comparison "
                "after every call. non-trivial = history with a deletion/insertion or >= 2 links; distinct = distinct action path.")
    ctx.assumptions = ["node ids are compared up to the bijection built from returned handles (allocation policy is not part of the property)",
                       "links compared as bags; port counts by >=; a stale handle whose index was re-used is not 'reachable data'"]
    wd = workdir("c04")
    try:
        # ---- leg M: complete graph, all actions of one store
        res = run_tlc("MC_HugrStore", cfg(["a"], ["none"], "OffsetsTwo", 3, 2, [1], False, 40, "CountsAll"), wd, workers=16, heap="8g",
                      want_lines=False, timeout=1500)
        tlc_must_hold(ctx, "M complete graph 1 store, 2 non-root nodes, offsets {-1,0}, <=2 links", res, "HugrStore model")
        ctx.exhaustive = True
        # ---- design level: the sub-offset algorithm refines the bag model (and the algorithm of the pinned tree does not)
        icfg = ('INIT Init\nNEXT Next\nCONSTANT OutPorts = {"a", "b"}\nCONSTANT InPorts = {"x", "y"}\nCONSTANT MaxLinks = %d\n'
                'CONSTANT Compact = %s\nINVARIANT Refines\nCHECK_DEADLOCK FALSE\n')
        res = run_tlc("HugrStoreImpl", icfg % (4 if quick else 5, "TRUE"), wd, workers=8, heap="4g", want_lines=False, timeout=1500)
        tlc_must_hold(ctx, "M HugrStoreImpl (sub-offset compaction) refines the bag of links", res, "HugrStoreImpl refinement")
        res = run_tlc("HugrStoreImpl", icfg % (3, "FALSE"), wd, workers=2, heap="2g", want_lines=False, timeout=600)
        if res.violated != "Refines":
            raise MachineryError("HugrStoreImpl: the uncompacted algorithm was expected to violate Refines (vacuity of the refinement check)")
        ctx.legs["M HugrStoreImpl without compaction"] = {"violates": "Refines", "states": res.distinct}
        # ---- S->C: one behaviour per state
        rp = Replayer(ctx, (-1, 0, 1), "C04")
        sizes = ("OffsetsTwo", 3, 2, "CountsOne") if quick else ("OffsetsTwo", 3, 2, "CountsTwo")   # OffsetsAll: 3.2e6 states, too many to replay one by one
        res = run_tlc("MC_HugrStore", cfg(["a"], ["none"] if quick else ["none", "m"], sizes[0], sizes[1], sizes[2], [1], False, 40, sizes[3], emit="state", laws=False),
                      wd, workers=1, heap="8g", line_sink=lambda ln: rp.feed_path(ln) if isinstance(ln, dict) and "hist" in ln else None,
                      timeout=5400)
        tlc_must_hold(ctx, "S2C one behaviour per state", res, "HugrStore model (emission)")
        ctx.note("states_replayed", rp.n)
        if rp.n < 1000:
            raise MachineryError(f"only {rp.n} states emitted")
        # ---- C->S: long random histories on real stores, validated step by step by Trace_HugrStore
        nt, lo, hi = (60, 30, 80) if quick else (400, 50, 300)
        traces, py_viol = gen_traces(ctx, ctx.seed + 4, nt, lo, hi, insert_bias=0.15)
        r3, rej = validate_traces(ctx, "c2s", "Trace_HugrStore", traces, wd,
                                  constants=('CONSTANT OpToks = {"a", "b", "const"}\nCONSTANT MetaToks = {"none", "m", "u"}\n'
                                             "CONSTANT Offsets <- TOffsets\nCONSTANT MaxNodes = 400\nCONSTANT MaxLinks = 4000"),
                                  invariants=["Inv"], properties=["TLawProp"], heap="6g", timeout=2400)
        ctx.add_tlc("C2S Trace_HugrStore", r3)
        ctx.traces += len(traces) - len(rej)
        for t in traces[:200]:
            ctx.nontriv([e["a"] for e in t] + [len(t)])
        for i, at in rej:
            tr = traces[i]
            ev = tr[at - 1] if 0 < at <= len(tr) else None
            ctx.violation({"action": ev["a"] if ev else "?", "field": "trace-step"},
                          {"hist": [{k: v for k, v in e.items() if k not in ("obs", "res")} for e in tr[:at]], "failed_at": at},
                          "a step of HugrStore!Next ending in the logged stores", {"res": ev["res"], "obs": ev["obs"]} if ev else None,
                          clause="Trace_HugrStore!TNext", leg="C2S")
        if r3.violated and not rej:
            ctx.violation({"action": "?", "field": r3.violated}, {"stdout": r3.stdout[-2500:]}, clause=r3.violated, leg="C2S")
    finally:
        cleanup(wd)


def replay(path: str) -> int:
    body = json.load(open(path))
    case = body["case"]
    ad = StoreAdapter()
    for ev in case["hist"]:
        try:
            print(ev, "->", ad.apply(ev))
        except ImplError as e:
            print(ev, "-> IMPLEMENTATION RAISED", e)
            break
    print(json.dumps(ad.project(), indent=1)[:3000])
    print("expected:", json.dumps(body["expected"])[:1500])
    return 0
