"""C18 — the bidirectional map stays a bijection under every operation sequence (spec: BiMap.tla)."""
from __future__ import annotations

import json
import random

from ..common import Ctx, tlc_must_hold
from ..replay import PathReplayer
from ..tlc import MachineryError, cleanup, run_tlc, workdir
from ..traces import validate_traces

# token -> real key / value.  Includes the falsy ones the property names (0, "", ()).
KEYS = [0, "", (), 1, "a", "b", (1,), 2]
VALS = ["", 0, (), "x", 1, "y", (0,), 3]


def K(t):
    return KEYS[t]


def V(t):
    return VALS[t]


def ktok(x):
    return -1 if x is None else next(i for i, k in enumerate(KEYS) if type(k) is type(x) and k == x)


def vtok(x):
    return -1 if x is None else next(i for i, k in enumerate(VALS) if type(k) is type(x) and k == x)


class Adapter:
    def __init__(self, nk, nv):
        from hugr.utils import BiMap, NotBijection
        self.BiMap, self.NotBijection = BiMap, NotBijection
        self.bm = None
        self.nk, self.nv = nk, nv

    def apply(self, ev) -> str:
        a = ev["a"]
        try:
            if a == "Construct":
                try:
                    src = {K(k): V(v) for k, v in ev["m"]}
                    self.bm = self.BiMap(src)
                    twin = self.BiMap(src)             # a second map built from the same mapping object is independent of the first ...
                    twin.insert_left(K(0), V(0)) if len(src) else None
                    for kk, _ in list(twin.items()):
                        twin.delete_left(kk)
                    src.clear()                         # ... and what the caller does to the mapping afterwards does not reach either
                except self.NotBijection:
                    return "NotBijection"
            elif a == "InsertLeft":
                self.bm.insert_left(K(ev["k"]), V(ev["v"]))
            elif a == "InsertRight":
                self.bm.insert_right(V(ev["v"]), K(ev["k"]))
            elif a == "SetItem":
                self.bm[K(ev["k"])] = V(ev["v"])
            elif a == "DeleteLeft":
                self.bm.delete_left(K(ev["k"]))
            elif a == "DelItem":
                del self.bm[K(ev["k"])]
            elif a == "DeleteRight":
                self.bm.delete_right(V(ev["v"]))
            else:
                raise MachineryError(f"unknown action {a}")
        except KeyError:
            return "KeyError"
        return "ok"

    def project(self) -> dict:
        bm = self.bm
        if bm is None:
            return {"fwd": [], "bck": [], "len": 0, "getr": [[k, -1] for k in range(self.nk)],
                    "getl": [[v, -1] for v in range(self.nv)], "api_consistent": True}
        fwd = [[ktok(k), vtok(v)] for k, v in bm.fwd.items()]
        bck = [[vtok(v), ktok(k)] for v, k in bm.bck.items()]
        # the remaining public views must be consistent with the forward dictionary
        cons = (list(bm) == list(bm.fwd) and dict(bm.items()) == bm.fwd and len(bm) == len(bm.fwd)
                and len(list(iter(bm))) == len(bm))
        for k in range(self.nk):
            try:
                got = bm[K(k)]
                cons = cons and K(k) in bm.fwd and bm.fwd[K(k)] == got
            except KeyError:
                cons = cons and K(k) not in bm.fwd
        return {"fwd": fwd, "bck": bck, "len": len(bm),
                "getr": [[k, vtok(bm.get_right(K(k)))] for k in range(self.nk)],
                "getl": [[v, ktok(bm.get_left(V(v)))] for v in range(self.nv)],
                "api_consistent": cons}


COMPARATORS = {"fwd": "set", "bck": "set", "getr": "set", "getl": "set"}


def mc_cfg(n, emit=True, view=True, bounded=None):
    c = ["INIT MCInit", "NEXT MCNext", f"CONSTANT K = {{{','.join(map(str, range(n)))}}}",
         f"CONSTANT V = {{{','.join(map(str, range(n)))}}}", "INVARIANT TypeOK", "INVARIANT Inverse",
         "INVARIANT Bijection", "PROPERTY MCStepLaws", "CHECK_DEADLOCK FALSE"]
    if view:
        c.append("VIEW View")
    if emit:
        c.append("ACTION_CONSTRAINT Emit")
    if bounded:
        c.append("CONSTRAINT Bounded")
    return "\n".join(c) + "\n"


def gen_traces(seed, n_traces, n_ops, nk, nv):
    """Random histories run on the real BiMap; each event logs call, args, outcome and both dictionaries."""
    rng = random.Random(seed)
    out = []
    for _ in range(n_traces):
        ad = Adapter(nk, nv)
        m = {}
        for _ in range(rng.randint(0, 4)):
            m[rng.randrange(nk)] = rng.randrange(nv)
        evs = [{"a": "Construct", "m": [[k, v] for k, v in m.items()], "k": -1, "v": -1}]
        tr = []
        for i in range(n_ops + 1):
            ev = evs[0] if i == 0 else {"a": rng.choice(["InsertLeft", "InsertRight", "SetItem", "DeleteLeft", "DelItem",
                                                         "DeleteRight", "InsertLeft", "SetItem"]),
                                        "k": rng.randrange(nk), "v": rng.randrange(nv), "m": []}
            r = ad.apply(ev)
            pr = ad.project()
            tr.append(dict(ev, res=r, fwd=pr["fwd"], bck=pr["bck"], len=pr["len"]))
            if r == "NotBijection":
                break
        out.append(tr)
    return out


def run(ctx: Ctx) -> None:
    quick = ctx.tier == "quick"
    n = 4 if quick else 5
    ctx.rule = ("S->C: one replay per transition of the complete BiMap state graph (path = first BFS path to the pre-state "
                "+ the transition) and per step of simulated walks; non-trivial = the path contains an insertion that "
                "displaces an existing pair or a failing deletion. C->S: random histories on the real class validated "
                "by Trace_BiMap. distinct = distinct action paths / traces.")
    ctx.assumptions = ["keys/values are used only through == and hash, so 4-5 tokens (bound to 0, '', (), 1, 'a') "
                       "represent all keys", "TLC's state graph is complete for the stated constants (no state constraint)"]
    wd = workdir("c18")
    try:
        # ---- leg M + S->C over the complete graph
        rp = PathReplayer(ctx, lambda: Adapter(n, n), COMPARATORS, nontrivial_of=_nontrivial)
        res = run_tlc("MC_BiMap", mc_cfg(n), wd, workers=1, line_sink=lambda ln: _feed(rp, ln))
        tlc_must_hold(ctx, f"M+S2C exhaustive |K|=|V|={n}", res, "BiMap model")
        ctx.exhaustive = True
        ctx.note("replayed_transitions", rp.n)
        if rp.n < 1000:
            raise MachineryError(f"only {rp.n} transitions emitted")
        # ---- simulation: long random walks (dict-order history is implementation state not in the spec)
        num, depth = (300, 40) if quick else (3000, 60)
        res2 = run_tlc("MC_BiMap", mc_cfg(n, view=False), wd, workers=1, simulate=f"num={num}", depth=depth,
                       seed=ctx.seed, line_sink=lambda ln: _feed_last(rp, ln, depth))
        if res2.violated or res2.exit_code != 0:
            raise MachineryError(f"simulation failed: {res2.violated} {res2.error_text}")
        ctx.legs["S2C simulate"] = {"num": num, "depth": depth, "wall_s": round(res2.wall_s, 2)}
        # ---- C->S
        nt, no = (400, 60) if quick else (2000, 200)
        nk = 6 if quick else 8
        traces = gen_traces(ctx.seed + 1, nt, no, nk, nk)
        ks = ",".join(map(str, range(nk)))
        r3, rej = validate_traces(ctx, "c2s", "Trace_BiMap", traces, wd,
                                  constants=f"CONSTANT K = {{{ks}}}\nCONSTANT V = {{{ks}}}",
                                  invariants=["Inverse", "Bijection"], properties=["TStepLaws"])
        ctx.add_tlc("C2S Trace_BiMap", r3)
        ctx.traces += len(traces) - len(rej)
        for t in traces[:50]:
            ctx.nontriv(t)
        for i, at in rej:
            tr = traces[i]
            ev = tr[at - 1] if 0 < at <= len(tr) else None
            ctx.violation({"action": ev["a"] if ev else "?", "field": "trace-step"}, {"trace": tr[:at], "failed_at": at},
                          "a step of BiMap!Next ending in the logged state", ev, clause="Trace_BiMap!TNext", leg="C2S")
        if r3.violated and not rej:
            ctx.violation({"action": "?", "field": r3.violated}, {"stdout": r3.stdout[-2000:]}, clause=r3.violated, leg="C2S")
        ctx.sample({"c2s_trace_prefix": traces[0][:4]})
    finally:
        cleanup(wd)


def _nontrivial(line):
    hist = line["hist"]
    last = hist[-1]
    if last["a"] in ("DeleteLeft", "DelItem", "DeleteRight") and line["res"] == "KeyError":
        return True
    return len(hist) >= 2 and last["a"] in ("InsertLeft", "InsertRight", "SetItem")


def _feed(rp, ln):
    if isinstance(ln, dict) and "hist" in ln:
        rp.feed(ln)


def _feed_last(rp, ln, depth):
    # in simulation every step is emitted; replaying each prefix would be quadratic, so replay a walk
    # when it ends (or every 10th step) — the comparison covers the state reached by the whole prefix.
    if isinstance(ln, dict) and "hist" in ln and (len(ln["hist"]) % 10 == 0 or len(ln["hist"]) >= depth - 1):
        rp.feed(ln)


def replay(path: str) -> int:
    body = json.load(open(path))
    case = body["case"]
    if "hist" in case:
        nk = 8
        ad = Adapter(nk, nk)
        r = None
        for ev in case["hist"]:
            r = ad.apply(ev)
        print(json.dumps({"res": r, "obs": ad.project(), "expected_res": case.get("res"), "expected_obs": case.get("obs")}, indent=1))
    else:
        print(json.dumps(body, indent=1)[:4000])
    return 0
