"""C07 — a type is reported copyable only if all of its constituents are (spec: HugrWire!Bound, MC_Types)."""
from __future__ import annotations

import json

from ..common import Ctx
from .terms_types import run_types


def run(ctx: Ctx) -> None:
    quick = ctx.tier == "quick"
    ctx.rule = ("TLC enumerates every object-view type term of the stated depth/row bound (all constructors incl. sugar sums, "
                "opaque and definition-backed types with explicit / from-params bounds over all index lists) and checks "
                "CopyableIffAtoms etc.; each term is built with the public constructors and type_bound(), the serialized bound, "
                "Array/List/StaticArray over it compared. non-trivial = compound term (>= 2 type constructors or type arguments).")
    ctx.assumptions = ["from-params indices are in range and name Type parameters given as TypeTypeArg",
                       "std collection bound specifications are read from specification/std_extensions at run time"]
    run_types(ctx, "bound", rowmax=2, depth=2 if quick else 3, rowmax2=1 if quick else 2)


def replay(path: str) -> int:
    print(json.dumps(json.load(open(path)), indent=1)[:4000])
    return 0
