"""C08 — inserting a HUGR embeds it isomorphically and disturbs nothing else (spec: HugrStore!InsertHugr / InsertIsIso)."""
from __future__ import annotations

import json

from ..common import Ctx, tlc_must_hold
from ..store_adapter import ImplError, StoreAdapter
from ..tlc import MachineryError, cleanup, run_tlc, workdir
from ..traces import validate_traces
from . import c04


def run(ctx: Ctx) -> None:
    quick = ctx.tier == "quick"
    ctx.rule = ("leg M: TLC explores every pair (A, B) of stores reachable within the bounds, every insertion parent, and checks the "
                "action property InsertIsIso. S->C: for (a sample of) the distinct post-insertion states the two histories are replayed "
                "on two real Hugr objects, insert_hugr is called, and the returned mapping, both stores (B before/after) and all queries "
                "compared. C->S: random two-store histories with frequent insertions validated by Trace_HugrStore (InsertIsIso evaluated "
                "on every real insertion). The builder wrappers insert_nested/cfg/conditional/tail_loop: every finished program of HugrBuilder.tla with Insert actions replayed. "
                "non-trivial = B has >= 2 nodes or a link, or a node was deleted before the insertion.")
    ctx.assumptions = ["links compared as bags per port; input port counts of inserted nodes only need to cover their links",
                       "node ids compared up to the bijection given by the returned mapping"]
    wd = workdir("c08")
    try:
        big = ("OffsetsTwo", 2, 1, "CountsTwo", ["none", "m"]) if not quick else ("OffsetsTwo", 2, 1, "CountsOne", ["none"])
        res = run_tlc("MC_HugrStore", c04.cfg(["a"], big[4], big[0], big[1], big[2], [1, 2], True, 14, big[3]), wd, workers=16, heap="8g",
                      want_lines=False, timeout=2400)
        tlc_must_hold(ctx, "M all pairs (A,B) x parents, <=1 extra node and <=1 link each", res, "HugrStore insert model")
        ctx.exhaustive = True
        rp = c04.Replayer(ctx, (-1, 0, 1), "C08")
        k = 5 if quick else 4
        res = run_tlc("MC_HugrStore", c04.cfg(["a"], big[4], big[0], big[1], big[2], [1, 2], True, 14, big[3], emit="insert", laws=False, samplek=k),
                      wd, workers=1, heap="8g", line_sink=lambda ln: rp.feed_path(ln) if isinstance(ln, dict) and "hist" in ln else None, timeout=2400)
        tlc_must_hold(ctx, f"S2C post-insertion states (every {k}th)", res, "HugrStore insert model (emission)")
        ctx.note("insert_states_replayed", rp.n)
        if rp.n < 500:
            raise MachineryError(f"only {rp.n} insert states emitted")
        # C->S: histories with many insertions
        nt, lo, hi = (60, 20, 60) if quick else (400, 30, 150)
        traces, _ = c04.gen_traces(ctx, ctx.seed + 8, nt, lo, hi, insert_bias=0.25)
        r3, rej = validate_traces(ctx, "c2s", "Trace_HugrStore", traces, wd,
                                  constants=('CONSTANT OpToks = {"a", "b", "const"}\nCONSTANT MetaToks = {"none", "m", "u"}\n'
                                             "CONSTANT Offsets <- TOffsets\nCONSTANT MaxNodes = 400\nCONSTANT MaxLinks = 4000"),
                                  invariants=["Inv"], properties=["TLawProp"], heap="6g", timeout=2400)
        ctx.add_tlc("C2S Trace_HugrStore", r3)
        ctx.traces += len(traces) - len(rej)
        ninsert = sum(1 for t in traces for e in t if e["a"] == "InsertHugr")
        ctx.note("real_insertions_validated", ninsert)
        for t in traces[:200]:
            ctx.nontriv([e["a"] for e in t])
        for i, at in rej:
            tr = traces[i]
            ev = tr[at - 1] if 0 < at <= len(tr) else None
            ctx.violation({"action": ev["a"] if ev else "?", "field": "trace-step"},
                          {"hist": [{k2: v for k2, v in e.items() if k2 not in ("obs", "res")} for e in tr[:at]], "failed_at": at},
                          "a step of HugrStore!Next ending in the logged stores", {"res": ev["res"], "obs": ev["obs"]} if ev else None,
                          clause="Trace_HugrStore!TNext", leg="C2S")
        if r3.violated and not rej:
            ctx.violation({"action": "?", "field": r3.violated}, {"stdout": r3.stdout[-2500:]}, clause=r3.violated, leg="C2S")
        # ---- the builders' insert_nested / insert_tail_loop / insert_conditional / insert_cfg: HugrBuilder!Insert (the copy of a template
        # hangs under the current container, node j -> n + j, links copied, the given wires attached to the copy of the root in order)
        from . import builder_model
        builder_model.run(ctx, wd, only_feature="insert")
        _insert_into_block(ctx)
    finally:
        cleanup(wd)


def _insert_into_block(ctx: Ctx) -> None:
    """directed: the insertion parent is a basic block and a given wire comes from another block of the same CFG (a Dom wire): the copy of the
    root hangs under the block and every given wire is attached exactly once (HugrBuilder!Insert with WireUp, instantiated by hand because the
    configuration - CFG, two blocks, Dom wire, insertion - needs more calls than the exhaustive runs reach)"""
    from hugr import tys
    from hugr.build.cfg import Cfg
    from . import builder_model
    for name in ("id", "nestext", "cond", "cfg", "loop"):
        ctx.evaluations += 1
        cfg = Cfg(tys.Bool, tys.Qubit)
        e = cfg.add_entry()
        b0, q0 = e.inputs()
        e.set_single_succ_outputs(b0, q0)
        blk = cfg.add_successor(e[0])
        b1, q1 = blk.inputs()
        t = builder_model.build_template(name)
        try:
            if name in ("id", "nestext"):
                n, wires = blk.insert_nested(t, b0), [b0]                    # b0 lives in the entry block: a Dom wire
            elif name == "cond":
                n, wires = blk.insert_conditional(t, b0, b1), [b0, b1]
            elif name == "cfg":
                n, wires = blk.insert_cfg(t, b0), [b0]
            else:
                n, wires = blk.insert_tail_loop(t, [b0], [q1]), [b0, q1]
            h = cfg.hugr
            got = [[(p.node.idx, p.offset) for p in h.linked_ports(n.inp(k))] for k in range(len(wires))]
            want = [[(w.node.idx, w.offset)] for w in wires]
            if got != want or h[n].parent != blk.parent_node:
                ctx.violation({"action": "insert into a block with a Dom wire", "field": name}, {"template": name}, {"links": want, "parent": blk.parent_node.idx},
                              {"links": got, "parent": getattr(h[n].parent, "idx", None)}, clause="HugrBuilder!Insert / WireUp (each given wire attached once)", leg="S2C")
        except Exception as ex:  # noqa: BLE001
            ctx.violation({"action": "insert into a block with a Dom wire", "field": f"exception {type(ex).__name__}"}, {"template": name}, "accepted", repr(ex)[:300],
                          clause="HugrBuilder!Insert", leg="S2C")


def replay(path: str) -> int:
    import json
    body = json.load(open(path))
    from . import builder_model
    if builder_model.replay_case(body):
        return 0
    return c04.replay(path)
