"""C03 — emitted documents conform to the published wire format (spec: HugrSerial!IndexSane / PortAddressing; published schema as oracle)."""
from __future__ import annotations

import json

from ..common import Ctx
from . import c04, serial_leg


def run(ctx: Ctx) -> None:
    quick = ctx.tier == "quick"
    ctx.rule = ("every document obtained from the implementation (store states of HugrStore incl. after deletion and index reuse, random "
                "mutation histories, catalogue HUGRs, packages and extensions) is validated against the published strict schema "
                "($ref into $defs), checked for index sanity, and compared with HugrSerial!Serialize, which addresses value ports by "
                "signature position, the static port right after the value inputs and order edges at OrderOffset regardless of how many "
                "ports are connected. non-trivial = history with a deletion or >= 2 links.")
    ctx.assumptions = ["the published schema file is an oracle evaluated with the jsonschema library, not re-modelled in TLA+",
                       "port addressing only for HUGRs whose links attach to existing ports of complete operations"]
    serial_leg.run_store_states(ctx, "C03", quick)
    serial_leg.run_random_histories(ctx, "C03", quick)
    serial_leg.run_catalog(ctx, "C03")
    _packages_and_extensions(ctx)
    try:
        from . import builder_docs
    except ImportError:
        builder_docs = None
    if builder_docs is not None:
        builder_docs.run(ctx, "C03")


def _packages_and_extensions(ctx: Ctx) -> None:
    from hugr.package import Package

    from .. import serial as S
    from ..catalog import extensions, modules
    mods, exts = modules(), extensions()
    for k in range(len(mods) + 1):
        for j in (0, 1, len(exts)):
            ctx.evaluations += 1
            pk = Package([m for _, m in mods[:k]], [e for _, e in exts[:j]])
            doc = json.loads(pk._to_serial().model_dump_json())
            errs = S.schema_errors(doc, "Package")
            if errs:
                ctx.violation({"check": "published strict schema", "source": "package"}, {"modules": k, "extensions": j}, "valid", errs, clause="schema")
            for m in doc["modules"]:
                p = S.index_sane(m)
                if p:
                    ctx.violation({"check": "index sanity", "source": "package"}, {"modules": k}, "sane", p[:3], clause="HugrSerial!IndexSane")
    for name, e in exts:
        ctx.evaluations += 1
        doc = json.loads(e.to_json())
        errs = S.schema_errors(doc, "Extension")
        if errs:
            ctx.violation({"check": "published strict schema", "source": "extension", "name": name}, {"extension": name}, "valid", errs, clause="schema")
    import hugr.std.collections.array as A
    import hugr.std.collections.list as L
    import hugr.std.collections.static_array as SA
    import hugr.std.float as F
    import hugr.std.int as I
    import hugr.std.logic as LG
    import hugr.std.prelude as P
    for e in (A.EXTENSION, L.EXTENSION, SA.EXTENSION, F.FLOAT_TYPES_EXTENSION, F.FLOAT_OPS_EXTENSION, I.INT_TYPES_EXTENSION,
              I.INT_OPS_EXTENSION, I.CONVERSIONS_EXTENSION, LG.EXTENSION, P.PRELUDE_EXTENSION):
        ctx.evaluations += 1
        errs = S.schema_errors(json.loads(e.to_json()), "Extension")
        if errs:
            ctx.violation({"check": "published strict schema", "source": "std extension", "name": e.name}, {"extension": e.name}, "valid", errs, clause="schema")


replay = c04.replay
