"""C19 — shot results convert to register bitstrings by the documented convention (spec: Shots.tla)."""
from __future__ import annotations

import json
import random
from collections import Counter

from ..common import Ctx, tlc_must_hold
from ..replay import as_bag, canon
from ..tlc import MachineryError, cleanup, run_tlc, workdir
from ..traces import validate_traces

# whole-register names the index pattern must NOT match (they stay whole-register tags)
NAME = {"w0": "C[0]", "w1": "c[x]", "w2": "c[-1]", "w3": "c [0]", "w4": "9c[0]", "w5": "c[0]]"}
BAD = [2, -1, 0.5, "1", None]


def tag_str(t) -> str:
    n = NAME.get(t["name"], t["name"])
    return n if t["idx"] < 0 else f"{n}[{t['idx']}]"


def reg_name(n: str) -> str:
    return NAME.get(n, n)


def val_py(v):
    k = v["k"]
    if k == "int":
        return int(v["v"])
    if k == "bool":
        return bool(v["v"])
    if k == "bad":
        return BAD[v["v"]]
    if k == "list":
        return [val_py(x) for x in v["vs"]]
    raise MachineryError(f"value kind {k}")


def observe_bits(shot) -> dict:
    try:
        d = shot.to_register_bits()
    except ValueError:
        return {"res": "ValueError", "bits": []}
    return {"res": "ok", "bits": [[k, list(v)] for k, v in d.items()], "_types_ok": all(isinstance(v, str) for v in d.values())}


def observe_coll(QsysResult, shot) -> dict:
    # per-shot collation as the property states it: via collated_counts of a one-shot result
    try:
        c = QsysResult([shot]).collated_counts()
    except ValueError:
        return {"res": "ValueError", "tags": []}
    (key, cnt), = c.items()
    ok = cnt == 1 and dict(key).keys() == shot.collate_tags().keys()
    return {"res": "ok" if ok else "inconsistent", "tags": [[t, list(b)] for t, b in key]}


def exp_bits(o):
    return {"res": o["res"], "bits": [[reg_name(n), b] for n, b in o["bits"]]}


def exp_coll(o):
    return {"res": o["res"], "tags": [[tag_str(t), b] for t, b in o["tags"]]}


def same(exp, obs, key):
    return exp["res"] == obs["res"] and set(as_bag(exp[key])) == set(as_bag(obs[key])) and len(exp[key]) == len(obs[key])


def classify(entries):
    """Trigger description used in violation signatures (what kind of history this is)."""
    tags = [tag_str(e[0]) for e in entries]
    feats = []
    if any(e[1]["k"] == "bool" or any(x["k"] == "bool" for x in e[1]["vs"]) for e in entries):
        feats.append("bool")
    if len(set(tags)) < len(tags):
        feats.append("dup-tag")
    return "+".join(feats) or "plain"


def run(ctx: Ctx) -> None:
    from hugr.qsystem.result import QsysResult, QsysShot
    quick = ctx.tier == "quick"
    ctx.rule = ("S->C: every entry sequence up to the stated length over the stated tag/value pools (no state collapsing) is "
                "built as a real QsysShot and to_register_bits / collated_counts compared with Shots.tla; every list of shots x "
                "strict flags likewise for register_bitstrings / register_counts. non-trivial = sequence has >= 2 entries "
                "touching one register. C->S: random entry streams validated by Trace_Shots.")
    ctx.assumptions = ["tags bound to concrete strings by harness/props/c19.py (incl. names the index pattern must not match)",
                       "bits are 0, 1, False, True; 2, -1, 0.5, '1', None and nested lists are not bits"]
    wd = workdir("c19")
    try:
        # ---------- single shot: all sequences
        configs = [("TagsSmall", "ValsSmall", 2 if quick else 3), ("TagsOne", "ValsWide", 2 if quick else 3)]
        if quick:
            configs.append(("TagsOne", "ValsTiny", 4))
        else:
            configs.append(("TagsOne", "ValsTiny", 5))
        for tags, vals, maxlen in configs:
            cfg = (f"INIT Init\nNEXT MCNext\nCONSTANT Tags <- {tags}\nCONSTANT Vals <- {vals}\nCONSTANT MaxLen = {maxlen}\n"
                   "INVARIANT FoldAgrees\nINVARIANT OnlyBits\nPROPERTY StepLawProp\nACTION_CONSTRAINT Emit\nCHECK_DEADLOCK FALSE\n")
            n = [0]

            def sink(ln, n=n):
                if not isinstance(ln, dict) or "entries" not in ln:
                    return
                n[0] += 1
                ctx.evaluations += 1
                ents = ln["entries"]
                shot = QsysShot()
                for t, v in ents:
                    shot.append(tag_str(t), val_py(v))
                regs = [t["name"] for t, _ in ents]
                if len(ents) >= 2 and len(set(regs)) < len(regs):
                    ctx.nontriv(ents)
                if len(ents) == 3:
                    ctx.sample({"entries": [[tag_str(t), val_py(v)] for t, v in ents], "expected_bits": exp_bits(ln["bits"])})
                ob = observe_bits(shot)
                eb = exp_bits(ln["bits"])
                if not same(eb, ob, "bits") or ob.get("_types_ok") is False:
                    ctx.violation({"query": "to_register_bits", "kind": classify(ents), "exp": eb["res"], "obs": ob["res"]},
                                  {"entries": ents}, eb, ob, clause="Shots!RegisterBits")
                    return
                oc = observe_coll(QsysResult, shot) if ents else {"res": "ok", "tags": []}
                ec = exp_coll(ln["coll"])
                if not same(ec, oc, "tags"):
                    ctx.violation({"query": "collated_counts", "kind": classify(ents), "exp": ec["res"], "obs": oc["res"]},
                                  {"entries": ents}, ec, oc, clause="Shots!Collated")
            res = run_tlc("MC_Shots", cfg, wd, workers=1, line_sink=sink)
            tlc_must_hold(ctx, f"M+S2C all sequences {tags}x{vals} len<={maxlen}", res, "Shots model")
            if n[0] < 100:
                raise MachineryError("too few sequences emitted")
        ctx.exhaustive = True
        # ---------- many shots
        for ms, me in ([(2, 2), (3, 1)] if quick else [(2, 2), (3, 1), (4, 1)]):
            cfg = (f"INIT RInit\nNEXT RNext\nCONSTANT Tags = {{}}\nCONSTANT Vals = {{}}\nCONSTANT MaxShots = {ms}\n"
                   f"CONSTANT MaxEntries = {me}\nINVARIANT AggLaws\nINVARIANT EmitInv\nCHECK_DEADLOCK FALSE\n")

            def sink2(ln):
                if not isinstance(ln, dict) or "shots" not in ln:
                    return
                ctx.evaluations += 1
                rows = [[(tag_str(t), val_py(v)) for t, v in s] for s in ln["shots"]]
                shots = [QsysShot(row) for row in rows]
                # shots may be given as QsysShot objects or as plain rows of (tag, value) pairs, empty rows included, also through an iterator
                r = QsysResult(shots) if (len(rows) + sum(map(len, rows))) % 2 else QsysResult(iter([list(row) for row in rows]))
                if len(ln["shots"]) >= 2:
                    ctx.nontriv(ln["shots"] + [ln["sn"], ln["sl"]])
                exp = ln["bitstrings"]
                e = {"res": exp["res"], "regs": [[reg_name(n), bs] for n, bs in exp["regs"]]}
                try:
                    d = r.register_bitstrings(strict_names=ln["sn"], strict_lengths=ln["sl"])
                    o = {"res": "ok", "regs": [[k, [list(x) for x in v]] for k, v in d.items()]}
                except ValueError:
                    o = {"res": "ValueError", "regs": []}
                try:
                    cnt = r.register_counts(strict_names=ln["sn"], strict_lengths=ln["sl"])
                    cnt_ok = o["res"] == "ok" and cnt == {k: Counter(v) for k, v in d.items()}
                except ValueError:
                    cnt_ok = o["res"] == "ValueError"
                if not same(e, o, "regs") or not cnt_ok:
                    kind = "strict_names" if ln["sn"] else ("strict_lengths" if ln["sl"] else "lenient")
                    ctx.violation({"query": "register_bitstrings", "kind": kind, "exp": e["res"], "obs": o["res"]},
                                  {"shots": ln["shots"], "sn": ln["sn"], "sl": ln["sl"]}, e, o, clause="Shots!Bitstrings")
                    return
                # collated counts over all shots = bag of the per-shot collations
                exps = [exp_coll(c) for c in ln["collated"]]
                try:
                    cc = r.collated_counts()
                    obag = Counter()
                    for key, c in cc.items():
                        obag[json.dumps(sorted([[t, list(b)] for t, b in key]))] += c
                    ores = "ok"
                except ValueError:
                    ores, obag = "ValueError", Counter()
                eres = "ValueError" if any(x["res"] != "ok" for x in exps) else "ok"
                ebag = Counter(json.dumps(sorted(canon(x["tags"]))) for x in exps) if eres == "ok" else Counter()
                if eres != ores or ebag != obag:
                    ctx.violation({"query": "collated_counts-multi", "kind": "bag", "exp": eres, "obs": ores},
                                  {"shots": ln["shots"]}, dict(ebag), dict(obag), clause="Shots!Collated per shot")
            res = run_tlc("MC_ShotResults", cfg, wd, workers=1, line_sink=sink2, heap="6g")
            tlc_must_hold(ctx, f"M+S2C results shots<={ms} entries<={me}", res, "ShotResults model")
        # ---------- C->S: long random streams
        rng = random.Random(ctx.seed + 19)
        nt, lo, hi = (300, 10, 40) if quick else (1500, 10, 80)
        tagpool = [{"name": n, "idx": i} for n in ("c", "d", "r_2") for i in (-1, 0, 1, 3, 5)] + [{"name": "w0", "idx": -1}, {"name": "w1", "idx": -1}]

        def rv(depth=0):
            r = rng.random()
            if r < 0.3:
                return {"k": "int", "v": rng.randint(0, 1), "vs": []}
            if r < 0.5:
                return {"k": "bool", "v": rng.randint(0, 1), "vs": []}
            if r < 0.52:
                return {"k": "bad", "v": rng.randrange(len(BAD)), "vs": []}
            return {"k": "list", "v": 0, "vs": [rv1() for _ in range(rng.randint(0, 4))]}

        def rv1():
            if rng.random() < 0.01:
                return {"k": "bad", "v": rng.randrange(len(BAD)), "vs": []}
            return {"k": rng.choice(["int", "bool"]), "v": rng.randint(0, 1), "vs": []}
        traces = []
        for _ in range(nt):
            shot = QsysShot()
            tr = []
            for _ in range(rng.randint(lo, hi)):
                t = rng.choice(tagpool)
                v = rv()
                if t["idx"] >= 0 and v["k"] == "list" and rng.random() < 0.9:
                    v = rv1()
                shot.append(tag_str(t), val_py(v))
                ob = observe_bits(shot)
                inv = {w: k for k, w in NAME.items()}
                tr.append({"tag": t, "val": v, "res": ob["res"], "bits": [[inv.get(n, n), b] for n, b in ob["bits"]]})
                if ob["res"] != "ok":
                    break
            traces.append(tr)
        r3, rej = validate_traces(ctx, "c2s", "Trace_Shots", traces, wd, constants="CONSTANT Tags = {}\nCONSTANT Vals = {}",
                                  invariants=["FoldAgrees", "OnlyBits"])
        ctx.add_tlc("C2S Trace_Shots", r3)
        ctx.traces += len(traces) - len(rej)
        for t in traces[:100]:
            ctx.nontriv(t)
        for i, at in rej:
            tr = traces[i]
            ev = tr[at - 1] if 0 < at <= len(tr) else None
            ents = [[e["tag"], e["val"]] for e in tr[:at]]
            ctx.violation({"query": "to_register_bits", "kind": classify(ents), "exp": "?", "obs": ev["res"] if ev else "?"},
                          {"trace": tr[:at], "failed_at": at}, "a step of Shots!Append1 ending in the logged register file", ev,
                          clause="Trace_Shots!TNext", leg="C2S")
        if r3.violated and not rej:
            ctx.violation({"query": "trace", "kind": r3.violated}, {"stdout": r3.stdout[-2000:]}, clause=r3.violated, leg="C2S")
    finally:
        cleanup(wd)


def replay(path: str) -> int:
    from hugr.qsystem.result import QsysResult, QsysShot
    body = json.load(open(path))
    case = body["case"]
    if "entries" in case:
        shot = QsysShot([(tag_str(t), val_py(v)) for t, v in case["entries"]])
        print("entries:", shot.entries)
        print("observed:", observe_bits(shot), "expected:", body["expected"])
    elif "shots" in case:
        shots = [QsysShot([(tag_str(t), val_py(v)) for t, v in s]) for s in case["shots"]]
        print("shots:", [s.entries for s in shots], "flags", case.get("sn"), case.get("sl"))
        try:
            print("observed:", QsysResult(shots).register_bitstrings(strict_names=case.get("sn", False), strict_lengths=case.get("sl", False)))
        except ValueError as e:
            print("observed: ValueError", e)
        print("expected:", body["expected"])
    else:
        print(json.dumps(body, indent=1)[:3000])
    return 0
