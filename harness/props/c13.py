"""C13 — builders refuse inconsistent constructions instead of recording them (spec: HugrRefusals.tla)."""
from __future__ import annotations

import json

from ..common import Ctx, tlc_must_hold
from ..tlc import MachineryError, cleanup, run_tlc, workdir


# ---------------------------------------------------------------------------------------- helpers
def mk(b, tok):
    """a fresh wire of the given type token inside builder b"""
    from hugr import ops, tys, val
    from hugr.std.int import IntVal
    if tok == "B":
        return b.load(val.TRUE)
    if tok == "I":
        return b.load(IntVal(3, 5))
    return b.add_op(ops.Custom("QAlloc", tys.FunctionType([], [tys.Qubit]), "", "verif.q", []))


def ty(tok):
    from hugr import tys
    from hugr.std.int import INT_T
    return {"B": tys.Bool, "I": INT_T, "Q": tys.Qubit}[tok]


def outcome_of(fn, classes):
    """run fn; classify what happened: 'ok' or the name of the documented class it is an instance of, else 'other:<Name>'"""
    try:
        fn()
    except Exception as e:  # noqa: BLE001
        for name, cls in classes.items():
            if isinstance(e, cls):
                return name, e
        return f"other:{type(e).__name__}", e
    return "ok", None


# ---------------------------------------------------------------------------------------- scenarios, one per class
def sc_case_outputs(p):
    from hugr import tys
    from hugr.build.dfg import Dfg
    from hugr.build.function import Module
    est, row, via = p["est"], p["row"], p["via"]
    if via == "nested":
        m = Module()
        f = m.define_function("f", [tys.Bool])
        outer = f.add_nested(f.inputs()[0])
        host, cw = outer, outer.inputs()[0]
    else:
        host = Dfg(tys.Bool)
        cw = host.inputs()[0]
    if via == "if_else":
        first = host.add_if(cw)
        if est != ["unset"]:
            first.set_outputs(*[mk(first, t) for t in est])
        second = first.add_else()
    else:
        cond = host.add_conditional(cw)
        first = cond.add_case(0)
        if est != ["unset"]:
            first.set_outputs(*[mk(first, t) for t in est])
        second = cond.add_case(1)
    wires = [mk(second, t) for t in row]
    return lambda: second.set_outputs(*wires)


def sc_case_index(p):
    from hugr import tys
    from hugr.build.cond_loop import Conditional
    c = Conditional(tys.UnitSum(p["n"]), [])
    for j in p["built"]:
        c.add_case(j)
    return lambda: c.add_case(p["i"])


def sc_exit_context(p):
    from hugr import tys
    from hugr.build.cond_loop import Conditional

    def go():
        with Conditional(tys.UnitSum(p["n"]), []) as c:
            for j in p["built"]:
                with c.add_case(j) as case:
                    case.set_outputs()
    return go


def sc_exit_branch(p):
    from hugr import tys
    from hugr.build.cfg import Cfg
    cfg = Cfg(tys.Bool)
    entry = cfg.add_entry()
    entry.set_block_outputs(entry.inputs()[0])
    b1 = cfg.add_successor(entry[0])
    b2 = cfg.add_successor(entry[1])
    if p["est"] != ["unset"]:
        b1.set_single_succ_outputs(*[mk(b1, t) for t in p["est"]])
        cfg.branch_exit(b1[0])
    b2.set_single_succ_outputs(*[mk(b2, t) for t in p["row"]])
    return lambda: cfg.branch_exit(b2[0])


def sc_function_outputs(p):
    from hugr.build.function import Function, Module
    declared = None if p["declared"] == ["undeclared"] else [ty(t) for t in p["declared"]]
    if p["via"] == "define_function":
        m = Module()
        f = m.define_function("f", [], declared)
    else:
        f = Function("f", [])
        if declared is not None:
            f.declare_outputs(declared)
    wires = [mk(f, t) for t in p["row"]]
    return lambda: f.set_outputs(*wires)


def sc_poly_use(p):
    from hugr import ops, tys
    from hugr.build.function import Module
    params = [tys.TypeTypeParam(tys.TypeBound.Any)] * p["nparams"]
    body = tys.FunctionType.endo([tys.Variable(0, tys.TypeBound.Any)] if p["nparams"] else [tys.Bool])
    sig = tys.PolyFuncType(params, body)
    inst = tys.FunctionType.endo([tys.Bool]) if p["inst"] else None
    targs = [tys.Bool.type_arg()] * p["ntypeargs"]
    via = p["via"]
    if via in ("Call", "LoadFunc"):
        cls = ops.Call if via == "Call" else ops.LoadFunc
        return lambda: cls(sig, inst, targs)
    m = Module()
    # the polymorphic callee is a declaration, a definition with declared outputs, or a definition whose outputs are inferred by set_outputs
    how = (p["nparams"] + 2 * p["ntypeargs"] + (1 if p["inst"] else 0)) % 3
    if how == 0:
        d = m.declare_function("g", sig)
    elif how == 1:
        d = m.define_function("g", list(body.input), list(body.output), type_params=list(params)).parent_node
    else:
        g = m.define_function("g", list(body.input), type_params=list(params))
        g.set_outputs(*g.inputs())
        d = g.parent_node
    f = m.define_function("main", [tys.Bool])
    if via == "call":
        return lambda: f.call(d, f.inputs()[0], instantiation=inst, type_args=targs)
    return lambda: f.load_function(d, instantiation=inst, type_args=targs)


def sc_call_target(p):
    from hugr import ops, tys, val
    from hugr.build.function import Module
    m = Module()
    f = m.define_function("main", [tys.Bool])
    k = p["kind"]
    if k == "FuncDefn":
        g = m.define_function("g", [], [])
        g.set_outputs()
        node = g.parent_node
    elif k == "FuncDecl":
        node = m.declare_function("g", tys.PolyFuncType([], tys.FunctionType.empty()))
    elif k == "Const":
        node = f.add_const(val.TRUE)
    elif k == "Input":
        node = f.input_node
    elif k == "DFG":
        d = f.add_nested()
        d.set_outputs()
        node = d.parent_node
    elif k == "Extension":
        node = f.add_op(ops.Custom("x", tys.FunctionType([], [tys.Bool]), "", "verif.q", []))
    else:
        node = f.load(val.TRUE)
    return lambda: f.call(node)


def sc_wire_source(p):
    from hugr import ops, tys, val
    from hugr.build.function import Module
    m = Module()
    f = m.define_function("main", [tys.Bool])
    k = p["kind"]
    if k == "Value":
        w = f.inputs()[0]
    elif k == "Const":
        w = f.add_const(val.TRUE)
    else:
        w = m.declare_function("g", tys.PolyFuncType([], tys.FunctionType.empty()))
    return lambda: f.add_op(ops.Noop(), w)


def sc_int_arg(p):
    from hugr import ops, tys
    from hugr.build.dfg import Dfg
    from hugr.build.tracked_dfg import TrackedDfg
    via = p["via"]
    if not p["tracking"]:
        d = Dfg(tys.Bool)
        if via == "set_indexed_outputs":
            return None
        return (lambda: d.add(ops.Noop()(0))) if via == "add" else (lambda: d.extend(ops.Noop()(0)))
    t = TrackedDfg(tys.Bool, tys.Bool)
    i0 = t.track_wire(t.inputs()[0])
    i1 = t.track_wire(t.inputs()[1])
    if not p["tracked"]:
        t.untrack_wire(i0)
    idx = i0
    if via == "add":
        return lambda: t.add(ops.Noop()(idx))
    if via == "extend":
        return lambda: t.extend(ops.Noop()(idx))
    return lambda: t.set_indexed_outputs(t.inputs()[1], idx)


def sc_incomplete(p):
    from hugr import tys
    from hugr.build.cfg import Cfg
    from hugr.build.cond_loop import Conditional, TailLoop
    from hugr.build.dfg import Dfg
    from hugr.build.function import Module
    w = p["what"]
    if w == "dfg-no-outputs":
        h = Dfg(tys.Bool).hugr
    elif w == "conditional-unset-case":
        c = Conditional(tys.Bool, [])
        with c.add_case(0) as case:
            case.set_outputs()
        h = c.hugr
    elif w == "cfg-no-exit":
        cfg = Cfg(tys.Bool)
        e = cfg.add_entry()
        e.set_single_succ_outputs()
        h = cfg.hugr
    elif w == "tail-loop-no-outputs":
        h = TailLoop([tys.Bool], []).hugr
    elif w == "function-no-outputs":
        m = Module()
        m.define_function("f", [tys.Bool])
        h = m.hugr
    else:
        d = Dfg(tys.Bool)
        d.add_nested(d.inputs()[0])
        d.set_outputs()
        h = d.hugr
    return lambda: h.to_json()


class World:
    """A HUGR with open builders at several depths (nested DFGs, two CFGs, blocks, a CFG nested in a block); every container
    has one value-producing node.  Sources / targets of the wire scenarios are those nodes / containers."""

    def __init__(self):
        from hugr import tys
        from hugr.build.dfg import Dfg
        from hugr.std.logic import Not
        root = Dfg(tys.Bool)
        b = root.inputs()[0]
        self.builders, self.src = {}, {}

        def reg(name, builder, wire):
            self.builders[name] = builder
            self.src[name] = builder.add_op(Not, wire)
        reg("root", root, b)
        A = root.add_nested(b)
        reg("A", A, A.inputs()[0])
        A1 = A.add_nested(A.inputs()[0])
        reg("A1", A1, A1.inputs()[0])
        B = root.add_nested(b)
        reg("B", B, B.inputs()[0])
        C = root.add_cfg(b)
        E = C.add_entry()
        reg("E", E, E.inputs()[0])
        E1 = E.add_nested(E.inputs()[0])
        reg("E1", E1, E1.inputs()[0])
        E.set_single_succ_outputs(E.inputs()[0])
        K = C.add_successor(E[0])
        reg("K", K, K.inputs()[0])
        K1 = K.add_nested(K.inputs()[0])
        reg("K1", K1, K1.inputs()[0])
        C2 = K.add_cfg(K.inputs()[0])
        E2 = C2.add_entry()
        reg("E2", E2, E2.inputs()[0])
        C3 = root.add_cfg(b)
        E3 = C3.add_entry()
        reg("E3", E3, E3.inputs()[0])
        self.h = root.hugr

    def skeleton(self):
        h = self.h
        nodes = list(h)
        par = [h[n].parent.idx if h[n].parent is not None else 0 for n in nodes]
        kind = [{"DFG": "DFG", "CFG": "CFG", "DataflowBlock": "DataflowBlock", "ExitBlock": "ExitBlock"}.get(type(h[n].op).__name__, "leaf") for n in nodes]
        assert [n.idx for n in nodes] == list(range(len(nodes)))
        ids = {name: n.idx for name, n in self.src.items()}
        return {"par": par, "kind": kind, "sources": sorted(ids.values()), "targets": sorted(ids.values())}, ids


SCENARIOS = {"CaseOutputs": sc_case_outputs, "CaseIndex": sc_case_index, "ExitContext": sc_exit_context, "ExitBranch": sc_exit_branch,
             "FunctionOutputs": sc_function_outputs, "PolyUse": sc_poly_use, "CallTarget": sc_call_target, "WireSource": sc_wire_source,
             "IntArg": sc_int_arg, "Incomplete": sc_incomplete}


def run(ctx: Ctx) -> None:
    from hugr import ops
    from hugr.build.cond_loop import ConditionalError
    from hugr.exceptions import MismatchedExit, NoSiblingAncestor, NotInSameCfg
    classes = {"ConditionalError": ConditionalError, "MismatchedExit": MismatchedExit, "NoConcreteFunc": ops.NoConcreteFunc,
               "IncompleteOp": ops.IncompleteOp, "NoSiblingAncestor": NoSiblingAncestor, "NotInSameCfg": NotInSameCfg,
               "IndexError": IndexError, "ValueError": ValueError}
    ctx.rule = ("TLC enumerates the parameter space of every refusal class of HugrRefusals.tla (row pairs for case / exit / function outputs, "
                "case indices -2..4 x built sets, polymorphic uses, call targets, wire sources, integer arguments, incomplete serializations) "
                "and all (source, target container) pairs of a multi-level world HUGR whose hierarchy is read back from the real object, with "
                "the specified outcome; each situation is set up with the real builders (at nesting depth 1 and 2) and the offending call "
                "must raise the documented class (any exception for the undocumented ones) and the consistent ones must be accepted. "
                "non-trivial = situation whose specified outcome is a refusal.")
    ctx.assumptions = ["the state after a refused call is not compared", "a Dom wire requested through a builder nested below the block may be refused or accepted"]
    wd = workdir("c13")
    try:
        w0 = World()
        skel, ids = w0.skeleton()
        (wd / "world.json").write_text(json.dumps(skel))
        inv = {v: k for k, v in ids.items()}
        cfg = "INIT Init\nNEXT Next\nINVARIANT Emit\nCHECK_DEADLOCK FALSE\n"
        n = [0]

        def sink(ln):
            if not isinstance(ln, dict) or "cls" not in ln:
                return
            n[0] += 1
            ctx.evaluations += 1
            cls, p, exp = ln["cls"], ln["p"], ln["outcome"]
            if exp != "ok":
                ctx.nontriv([cls, p])
            if cls == "Wire":
                world = World()
                tb = world.builders[inv[p["t"]]]
                swire = world.src[inv[p["s"]]]
                fn = lambda: tb.add_op(ops.Noop(), swire)     # noqa: E731
                desc = {"cls": cls, "source_in": inv[p["s"]], "target_builder": inv[p["t"]], "relation": ln["rel"]}
            else:
                try:
                    fn = SCENARIOS[cls](p)
                except Exception as e:  # noqa: BLE001
                    raise MachineryError(f"scenario set-up for {cls} {p} raised {type(e).__name__}: {e}") from e
                desc = {"cls": cls, "p": p}
                if fn is None:
                    return
            got, exc = outcome_of(fn, classes)
            if len(ctx.samples) < 4 and exp not in ("ok", "any") and cls in ("Wire", "CaseOutputs", "PolyUse"):
                ctx.sample({"situation": desc, "specified_outcome": exp})
            sig = {"cls": cls, "exp": exp, "obs": got.split(":")[0] if got.startswith("other") else got}
            if cls == "Wire":
                sig["rel"] = f"{inv[p['s']]}->{inv[p['t']]}"
            if exp == "any":
                return
            if exp == "ok":
                ok = got == "ok"
            elif exp == "Refuse":
                ok = got in ("NoSiblingAncestor", "NotInSameCfg")
            elif exp == "Error":
                ok = got != "ok"
            else:
                ok = got == exp
            if not ok:
                ctx.violation(sig, desc, exp, got if exc is None else f"{got}: {exc!r}"[:300], clause=f"HugrRefusals!{cls}")
        res = run_tlc("MC_HugrRefusals", cfg, wd, workers=1, env={"WORLD_FILE": str(wd / "world.json")}, line_sink=sink)
        tlc_must_hold(ctx, "M+S2C refusal classes", res, "HugrRefusals")
        ctx.exhaustive = True
        if n[0] < 800:
            raise MachineryError(f"only {n[0]} situations emitted")
        # ---- the same refusals as actions of the builder state machine: one inconsistent call at any position of any well-formed program
        from . import builder_model
        builder_model.run_refusals(ctx, wd)
    finally:
        cleanup(wd)


def replay(path: str) -> int:
    body = json.load(open(path))
    if body.get("sig", {}).get("source") == "builder-model-refusal":
        from . import builder_model
        hist = body["case"]["hist"]
        for ev in hist:
            print(ev)
        print("last call raised:", builder_model.replay_refusal(hist, [{"t": "Sum", "s": "Unit", "size": 2}, {"t": "Q"}]), "| expected:", body.get("expected"))
        return 0
    print(json.dumps(body, indent=1)[:4000])
    return 0
