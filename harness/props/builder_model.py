"""C01 (and C16 b): the explicit builder state machine HugrBuilder.tla.
leg M: TLC checks Finished => Valid(Doc) over all programs of <= K builder calls.
S->C: every distinct finished state (first BFS path) is replayed on the real builders; the document the implementation
serializes must equal the model's Doc node for node and edge for edge, and handles must report the model's output counts."""
from __future__ import annotations

import json
from collections import Counter

from .. import wire as W
from ..common import Ctx, tlc_must_hold
from ..tlc import MachineryError, run_tlc


ALL_OPS = ("Not", "H", "Measure", "QAlloc", "QFree")
DF_FEATURES = ("load", "nested", "order")


def cfg(root, k, depth, emit=False, view=True, ops=ALL_OPS, features=DF_FEATURES, blocks=2, samplek=1, maxargs=2, emit_refused=False):
    tset = lambda xs: "{" + ", ".join(f'"{x}"' for x in xs) + "}"  # noqa: E731
    module = root == "Module"
    c = ["INIT Init", "NEXT NextB", f"CONSTANT RootInputs <- {'RootB' if module else root}", f"CONSTANT ModuleRoot = {'TRUE' if module else 'FALSE'}", f"CONSTANT MaxCalls = {k}", f"CONSTANT MaxDepth = {depth}",
         f"CONSTANT Ops = {tset(ops)}", f"CONSTANT Features = {tset(features)}", f"CONSTANT MaxBlocks = {blocks}", f"CONSTANT SampleK = {samplek}", f"CONSTANT MaxArgs = {maxargs}",
         "INVARIANT FinishedValid", "CHECK_DEADLOCK FALSE"]
    if view:
        c.append("VIEW View")
    if emit:
        c.append("INVARIANT EmitFinished")
    if emit_refused:
        c.append("INVARIANT EmitRefused")
    return "\n".join(c) + "\n"


def op_of(name):
    from hugr import ops, tys
    from hugr.std.logic import Not
    q, b = tys.Qubit, tys.Bool
    table = {"Not": lambda: Not, "H": lambda: ops.Custom("H", tys.FunctionType([q], [q]), "", "verif.q", []),
             "Measure": lambda: ops.Custom("Measure", tys.FunctionType([q], [q, b]), "", "verif.q", []),
             "QAlloc": lambda: ops.Custom("QAlloc", tys.FunctionType([], [q]), "", "verif.q", []),
             "QFree": lambda: ops.Custom("QFree", tys.FunctionType([q], []), "", "verif.q", []),
             "Some": lambda: ops.Tag(1, tys.Sum([[], [b]])), "None": lambda: ops.Tag(0, tys.Sum([[], [b]])),
             "Cont": lambda: ops.Tag(0, tys.Sum([[b], []])), "Brk": lambda: ops.Tag(1, tys.Sum([[b], []]))}
    return table[name]()


def build_template(name):
    """the stand-alone builder programs HugrBuilder!Templates describes"""
    from hugr import tys
    from hugr.build.cfg import Cfg
    from hugr.build.cond_loop import Conditional, TailLoop
    from hugr.build.dfg import Dfg
    from hugr.std.logic import Not
    if name == "id":
        d = Dfg(tys.Bool)
        d.set_outputs(d.inputs()[0])
        return d
    if name == "nestext":
        d = Dfg(tys.Bool)
        inner = d.add_nested()
        x = inner.add_op(Not, d.inputs()[0])
        inner.set_outputs(x)
        d.set_outputs(inner.parent_node[0])
        return d
    if name == "loop":
        from hugr import ops
        tl = TailLoop([tys.Bool], [tys.Qubit])
        b, q = tl.inputs()
        ctl = tl.add_op(ops.Tag(0, tys.Sum([[tys.Bool], []])), b)
        tl.set_loop_outputs(ctl, q)
        return tl
    if name == "cond":
        c = Conditional(tys.Bool, [tys.Bool])
        for i in (0, 1):
            case = c.add_case(i)
            case.set_outputs(case.inputs()[0])
        return c
    if name == "cfg":
        g = Cfg(tys.Bool)
        e = g.add_entry()
        e.set_outputs(e.inputs()[0])
        g.branch_exit(e[0])
        g.branch_exit(e[1])
        return g
    raise MachineryError(f"unknown template {name}")


TEMPLATE_SIZE = {"id": 3, "nestext": 7, "loop": 4, "cond": 7, "cfg": 5}


def make_stepper(root_inputs):
    """A fresh root builder and a function executing one HugrBuilder event on the real builders.
    Node identities are never assumed: `ids` maps the specification's node numbers to the handles the implementation *returned*
    (the specification numbers nodes in its own creation order; an implementation that creates them in another order is still followed)."""
    from hugr import val
    from hugr.build.dfg import Dfg
    if root_inputs == "module":
        from hugr.build.function import Module
        d = Module()
        ids = {0: d.hugr.root}
        nxt = [1]
    else:
        d = Dfg(*[W.build_type(t) for t in root_inputs])
        ids = {0: d.parent_node, 1: d.input_node, 2: d.output_node}
        nxt = [3]
    builders = {0: d}          # specification's number of the container / conditional / CFG -> builder object
    h = d.hugr
    handles = {}               # specification's node number -> handle returned for it (C16 b)
    conds = []
    cfgs = []

    def wire(w):
        return ids[w[0]].out(w[1])

    def fresh(k):
        n = nxt[0]
        nxt[0] += k
        return n

    def preorder(node):        # the subtree below `node` in hierarchy pre-order (children in child order), read through the public API
        out, stack = [], [node]
        while stack:
            x = stack.pop()
            out.append(x)
            stack.extend(reversed(list(h.children(x))))
        return out

    def map_subtree(n, node):  # the specification numbers a freshly created subtree in pre-order from n
        for j, x in enumerate(preorder(node)):
            ids.setdefault(n + j, x)

    def df_builder(n, nb):     # a dataflow container: node, Input, Output
        ids[n], ids[n + 1], ids[n + 2] = nb.parent_node, nb.input_node, nb.output_node
        builders[n] = nb

    def step(ev):
        b = builders[ev["ctx"]]
        a = ev["a"]
        if a == "AddOp":
            ws = [wire(w) for w in ev["args"]]
            how = (len(h) + len(ws)) % 3          # the three spellings of the same call: add_op(op, *wires), add(op(*wires)), extend(op(*wires))
            if how == 0:
                nd = b.add_op(op_of(ev["op"]), *ws)
            elif how == 1:
                nd = b.add(op_of(ev["op"])(*ws))
            else:
                (nd,) = b.extend(op_of(ev["op"])(*ws))
            n = fresh(1)
            ids[n] = handles[n] = nd
        elif a in ("Load", "LoadUnit"):
            nd = b.load(val.TRUE if a == "Load" else val.Unit)
            n = fresh(2)                          # the specification numbers the Const n and the LoadConstant n + 1
            ids[n + 1] = handles[n + 1] = nd
            src = [p.node for p in h.linked_ports(nd.inp(0))]
            if len(src) == 1:
                ids[n] = src[0]
        elif a == "AddNested":
            nb = b.add_nested(*[wire(w) for w in ev["args"]])
            df_builder(fresh(3), nb)
        elif a == "AddStateOrder":
            b.add_state_order(ids[ev["x"]], ids[ev["y"]])
        elif a in ("AddConditional", "AddIf"):
            n = fresh(7)
            if a == "AddConditional":
                cb = b.add_conditional(*[wire(w) for w in ev["args"]])
                builders[n] = cb
                conds.append((n, cb))
                ids[n] = cb.parent_node
                map_subtree(n, cb.parent_node)     # all Case / Input / Output triples exist from the start
            else:
                if_ = b.add_if(*[wire(w) for w in ev["args"]])
                builders[n] = if_                  # the else branch is started from the If builder
                conds.append((n, if_._parent_conditional()))
                ids[n] = if_.conditional_node
                map_subtree(n, if_.conditional_node)
                df_builder(n + 4, if_)             # add_if starts case 1 = the second Case triple
        elif a == "AddCase":
            case = b.add_else() if hasattr(b, "add_else") else b.add_case(ev["i"])
            df_builder(ev["ctx"] + 1 + 3 * ev["i"], case)
        elif a == "AddTailLoop":
            nb = b.add_tail_loop([wire(w) for w in ev["just"]], [wire(w) for w in ev["rest"]])
            df_builder(fresh(3), nb)
        elif a == "DefineFunction":
            fb = b.define_function("f", [W.build_type(t) for t in ev["ins"]], [W.build_type(t) for t in ev["outs"]] if ev["declared"] else None)
            df_builder(fresh(3), fb)
        elif a == "DeclareFunction":
            from hugr import tys
            if ev["poly"]:
                rv = tys.RowVariable(0, tys.TypeBound.Any)
                nd = b.declare_function("row_id", tys.PolyFuncType([tys.ListParam(tys.TypeTypeParam(tys.TypeBound.Any))], tys.FunctionType.endo([rv])))
            else:
                nd = b.declare_function("decl", tys.PolyFuncType([], tys.FunctionType.endo([tys.Bool])))
            ids[fresh(1)] = nd
        elif a == "CallPoly":
            from hugr import tys
            ws = [wire(w) for w in ev["args"]]
            row = [h.port_type(w) for w in ws]
            nd = b.call(ids[ev["f"]], *ws, instantiation=tys.FunctionType.endo(row), type_args=[tys.SequenceArg([t.type_arg() for t in row])])
            n = fresh(1)
            ids[n] = handles[n] = nd
        elif a == "Call":
            nd = b.call(ids[ev["f"]], *[wire(w) for w in ev["args"]])
            n = fresh(1)
            ids[n] = handles[n] = nd
        elif a == "LoadFunction":
            ids[fresh(1)] = b.load_function(ids[ev["f"]])           # (C16 does not list load_function: its handle has no known count)
        elif a == "AddCfg":
            cb = b.add_cfg(*[wire(w) for w in ev["args"]])
            n = fresh(5)                           # CFG n, entry block n + 1 (Input n + 2, Output n + 3), exit block n + 4
            builders[n] = cb
            cfgs.append((n, cb))
            ids[n], ids[n + 1], ids[n + 4] = cb.parent_node, cb.entry, cb.exit
            map_subtree(n + 1, cb.entry)           # the entry block's Input and Output exist from the start
        elif a == "AddEntry":
            df_builder(ev["ctx"] + 1, b.add_entry())
        elif a == "AddBlock":
            df_builder(fresh(3), b.add_block(*[W.build_type(t) for t in ev["row"]]))
        elif a == "AddSuccessor":
            df_builder(fresh(3), b.add_successor(ids[ev["b"]].out(ev["i"])))
        elif a == "Branch":
            b.branch(ids[ev["b"]].out(ev["i"]), ids[ev["dst"]])
        elif a == "BranchExit":
            b.branch_exit(ids[ev["b"]].out(ev["i"]))
        elif a == "Insert":
            t = build_template(ev["t"])
            ws = [wire(w) for w in ev["args"]]
            if ev["t"] in ("id", "nestext"):
                nd = b.insert_nested(t, *ws)
            elif ev["t"] == "loop":
                nd = b.insert_tail_loop(t, ws[:1], ws[1:])
            elif ev["t"] == "cond":
                nd = b.insert_conditional(t, *ws)
            else:
                nd = b.insert_cfg(t, *ws)
            n = fresh(TEMPLATE_SIZE[ev["t"]])
            ids[n] = handles[n] = nd
            map_subtree(n, nd)                     # (every template's index order is its hierarchy pre-order)
        elif a == "SetOutputs":
            b.set_outputs(*[wire(w) for w in ev["args"]])
            ids[ev["ctx"]] = b.parent_node          # (set_outputs may hand out a new handle for the container)
            if type(b).__name__ not in ("Case", "If", "Else", "Function", "Block"):      # C16 names dataflow graph, CFG, conditional and tail-loop builders
                handles[ev["ctx"]] = b.parent_node
        else:
            raise MachineryError(f"unknown builder action {a}")

    def finish():
        for n, cb in conds + cfgs:
            handles[n] = ids[n] = cb.parent_node
        return h, handles
    return step, finish, builders, h


def replay(hist, root_inputs):
    step, finish, _, _ = make_stepper(root_inputs)
    for ev in hist:
        step(ev)
    return finish()


REFUSAL_CLASSES = {"NoSiblingAncestor", "NotInSameCfg", "ConditionalError", "MismatchedExit", "ValueError", "IncompleteOp"}


def replay_refusal(hist, root_inputs):
    """executes a program whose last call is inconsistent; returns the class name of what that call raised, or None (silently accepted)"""
    step, _, builders, h = make_stepper(root_inputs)
    for ev in hist[:-1]:
        step(ev)
    ev = hist[-1]
    try:
        if ev["a"] == "Serialize":
            h.to_json()
        elif ev["a"] == "ExitConditional":
            c = builders[ev["ctx"]]
            c = c._parent_conditional() if hasattr(c, "_parent_conditional") else c
            c.__exit__(None, None, None)
        elif ev["a"] == "AddCase":
            c = builders[ev["ctx"]]
            c = c._parent_conditional() if hasattr(c, "_parent_conditional") else c
            c.add_case(ev["i"])
        else:
            step(ev)
    except Exception as e:  # noqa: BLE001
        first = type(e).__name__
        # a refusal leaves the builder refusing: the same inconsistent call is made again (the caller caught the error and retried)
        if ev["a"] in ("BranchExit", "AddCase", "ExitConditional", "Serialize"):
            try:
                if ev["a"] == "Serialize":
                    h.to_json()
                elif ev["a"] == "ExitConditional":
                    c = builders[ev["ctx"]]
                    (c._parent_conditional() if hasattr(c, "_parent_conditional") else c).__exit__(None, None, None)
                elif ev["a"] == "AddCase":
                    c = builders[ev["ctx"]]
                    (c._parent_conditional() if hasattr(c, "_parent_conditional") else c).add_case(ev["i"])
                else:
                    step(ev)
            except Exception as e2:  # noqa: BLE001
                return first if type(e2).__name__ == first else f"{first}, then {type(e2).__name__} on the same call"
            return f"{first}, then accepted on the same call"
        return first
    return None


def norm_node(n):
    n = W.canon(W.strip_hugr(W.from_tla(n)))
    if isinstance(n, dict) and n.get("op") == "Extension":
        n = dict(n)
        n.pop("description", None)          # descriptions of extension ops are C05's business
    return n


def run(ctx: Ctx, wd, handles_only: bool = False, only_feature: str | None = None) -> None:
    """handles_only (C16 b): only the S->C leg, only the handle counts are judged (documents are C01's business)."""
    quick = ctx.tier == "quick"
    DF, CO, LO, FU, CF, IN, IF, DE = DF_FEATURES, ("cond",), ("loop",), ("func",), ("cfg",), ("insert",), ("if",), ("func", "decl")

    def C(root, k, depth, ops_, fe, sk=1, ma=2):
        return dict(root=root, k=k, depth=depth, ops=tuple(ops_), fe=tuple(fe), sk=sk, ma=ma)

    def name(c):
        return (f"{c['root']} K={c['k']} depth<={c['depth']} ops={','.join(c['ops'])} features={','.join(c['fe'])}" + (f" args<={c['ma']}" if c["ma"] != 2 else "")
                + (f" (every {c['sk']}th)" if c["sk"] > 1 else ""))
    # ---- leg M. (The S->C emission runs below check FinishedValid over their whole state space too; quick M legs are the configurations
    # that are explored deeper than they are replayed.)
    m_cfgs = ([C("RootBQ", 6, 2, ("Not", "Some"), CO), C("RootBQ", 8, 2, ("H",), CO), C("RootBQ", 4, 2, ("Some", "None", "Cont", "Brk"), LO),
               C("RootBQ", 7, 2, ("Not", "H"), CF), C("RootBQ", 7, 3, ("H",), CO + ("nested",), ma=1), C("RootBQ", 6, 3, ("H",), FU + ("nested",), ma=1)] if quick else
              [C("RootBQ", 5, 2, ALL_OPS, DF), C("RootB", 5, 2, ALL_OPS, DF), C("RootB", 6, 3, (), ("nested",), ma=1),
               C("RootBQ", 7, 2, ("Not", "Some"), CO), C("RootBQ", 8, 2, ("H", "Measure"), CO), C("RootBQ", 7, 3, ("H",), CO + ("nested",), ma=1),
               C("RootBQ", 5, 2, ("Some", "None"), LO), C("RootBQ", 5, 2, ("Cont", "Brk", "H"), LO), C("RootBQ", 6, 3, (), LO + ("nested",), ma=1),
               C("RootBQ", 8, 3, (), CO + LO, ma=1), C("RootBQ", 6, 2, ("Not",), FU), C("RootBQ", 6, 3, ("H",), FU + ("nested",), ma=1), C("RootBQ", 7, 3, (), FU + CO, ma=1),
               C("RootBQ", 9, 2, (), CF + ("unit",)), C("RootBQ", 7, 2, ("Not", "H"), CF), C("RootBQ", 9, 2, (), CF + ("dom",)),
               C("RootBQ", 8, 3, (), CF + ("nested", "unit"), ma=1), C("RootBQ", 5, 2, ("Not", "H"), IN), C("RootBQ", 7, 2, ("H", "Not"), IF), C("Module", 6, 2, ("Not", "H"), DE)])
    for c in ([] if handles_only or only_feature else m_cfgs):
        res = run_tlc("MC_HugrBuilder", cfg(c["root"], c["k"], c["depth"], ops=c["ops"], features=c["fe"], maxargs=c["ma"]), wd, workers=16, heap="10g",
                      want_lines=False, timeout=5000)
        tlc_must_hold(ctx, f"M HugrBuilder {name(c)}: Finished => Valid(Doc)", res, "HugrBuilder model")
    # ---- S->C: every distinct finished state
    ROOTS = {"RootBQ": [{"t": "Sum", "s": "Unit", "size": 2}, {"t": "Q"}], "RootB": [{"t": "Sum", "s": "Unit", "size": 2}], "Module": "module"}
    cur_root = ["RootBQ"]
    drift = []
    guard = [0]
    n = [0]
    feats = Counter()

    def sink(ln):
        if not isinstance(ln, dict) or "doc" not in ln:
            return
        n[0] += 1
        ctx.evaluations += 1
        hist = ln["hist"]
        acts = [e["a"] for e in hist]
        sig = {"source": "builder-model", "last": acts[-1], "root": cur_root[0]}
        if "AddNested" in acts:
            feats["nested"] += 1
            ctx.nontriv(hist)
        if "AddConditional" in acts:
            feats["cond"] += 1
            ctx.nontriv(hist)
            if any(e["a"] == "SetOutputs" and e["args"] and nodes_parent_is_case(ln["doc"], e["ctx"]) for e in hist):
                feats["cond-with-outputs"] += 1
        if cur_root[0] == "Module":
            feats["module-root"] += 1
        if "CallPoly" in acts:
            feats["row-poly-call"] += 1
            ctx.nontriv(hist)
        if "DefineFunction" in acts:
            feats["func"] += 1
            if "Call" in acts:
                feats["call"] += 1
                ctx.nontriv(hist)
            if any(e["a"] == "Call" and e["ctx"] == e["f"] for e in hist):
                feats["recursive-call"] += 1
        if "AddCfg" in acts:
            feats["cfg"] += 1
            ctx.nontriv(hist)
            if "AddSuccessor" in acts or "AddBlock" in acts:
                feats["cfg-2-blocks"] += 1
            if "Branch" in acts:
                feats["cfg-branch"] += 1
            dn = ln["doc"]["nodes"]
            if any(e[0][1] >= 0 and dn[e[0][0]]["parent"] != dn[e[1][0]]["parent"] and dn[dn[e[0][0]]["parent"]].get("op") == "DataflowBlock"
                   and dn[dn[e[1][0]]["parent"]].get("op") == "DataflowBlock" for e in ln["doc"]["edges"]):
                feats["dom-wire"] += 1
        if "Insert" in acts:
            feats["insert"] += 1
            if any(e["a"] == "Insert" and e["ctx"] != 0 for e in hist):
                feats["insert-in-nested-region"] += 1
            ctx.nontriv(hist)
            for e in hist:
                if e["a"] == "Insert":
                    feats["insert:" + e["t"]] += 1
        if "AddIf" in acts:
            feats["if-else"] += 1
        if "AddTailLoop" in acts:
            feats["loop"] += 1
            ctx.nontriv(hist)
            if any(e["a"] == "AddTailLoop" and e["just"] for e in hist):
                feats["loop-just-inputs"] += 1
        if any(e["a"] in ("AddOp", "SetOutputs", "AddNested", "AddConditional") and any(True for w in e["args"]) for e in hist):
            feats["wired"] += 1
        try:
            h, handles = replay(hist, ROOTS[cur_root[0]])
            doc = json.loads(h.to_json())
        except Exception as e:  # noqa: BLE001
            if not handles_only:
                ctx.violation(dict(sig, clauses=f"exception {type(e).__name__}"), {"hist": hist}, "the builders accept the program", repr(e)[:300],
                              clause="HugrBuilder!Next", leg="S2C")
            return
        exp = ln["doc"]
        en = [norm_node(x) for x in exp["nodes"]]
        on = [norm_node(x) for x in doc["nodes"]]
        ee = Counter(json.dumps(e) for e in exp["edges"])
        oe = Counter(json.dumps(e) for e in doc["edges"])
        if (en != on or ee != oe) and not handles_only:
            # The implementation's document is not the one the state machine predicts. That alone is a conformance difference, not a
            # violation: the properties do not fix node numbering. C08 (insertions) requires the two to agree up to renumbering; C01
            # requires the implementation's document to be valid - it is handed to TLC (DocCheck) after the run.
            feats["differs-from-model-document"] += 1
            if only_feature == "insert":
                ce, cee = _canonical(en, [x["parent"] for x in exp["nodes"]], exp["edges"])
                co, coe = _canonical(on, [x["parent"] for x in doc["nodes"]], doc["edges"])
                if ce != co or cee != coe:
                    k2 = next((i for i, (a, b) in enumerate(zip(ce, co)) if a != b), None)
                    ctx.violation(dict(sig, clauses="nodes" if k2 is not None else "edges"), {"hist": hist},
                                  ce[k2] if k2 is not None else sorted((cee - coe).elements())[:4], co[k2] if k2 is not None else sorted((coe - cee).elements())[:4],
                                  clause="HugrBuilder!Doc up to renumbering (inserted copy, attached wires)", leg="S2C")
                return
            if len(drift) < 400:
                drift.append((f"model:{cur_root[0]}:{len(drift)}", doc, hist, {"nodes": en != on, "edges": ee != oe}))
            return
        if any(e[0][1] >= 1 and e[1][1] >= 0 for e in exp["edges"]) and "AddNested" in acts:
            feats["ext-or-order"] += 1
        counts = {int(a): b for a, b in ln["counts"]}
        for idx, node in handles.items():
            try:
                got = len(list(node))
            except ValueError:
                got = "ValueError"
            if idx in counts and got != counts[idx]:
                ctx.violation(dict(sig, clauses="handle count"), {"hist": hist, "node": idx}, counts[idx], got, clause="HugrBuilder!HandleCounts", leg="S2C")
                return
        # vacuity guard of the comparison: the same program with one call dropped must NOT reproduce the specification's document
        if guard[0] < 40 and not handles_only and any(x in ("AddOp", "Load", "LoadUnit") for x in acts[:-1]):
            j = next(i for i, x in enumerate(acts[:-1]) if x in ("AddOp", "Load", "LoadUnit"))
            guard[0] += 1
            try:
                h2, _ = replay(hist[:j] + hist[j + 1:], ROOTS[cur_root[0]])
                d2 = json.loads(h2.to_json())
                same = [norm_node(x) for x in d2["nodes"]] == en and Counter(json.dumps(e) for e in d2["edges"]) == ee
            except Exception:  # noqa: BLE001
                same = False
            if same:
                raise MachineryError(f"builder model: dropping call {j} of {hist} went unnoticed by the document comparison")
        if len(hist) >= 3 and ("AddNested" in acts or "AddConditional" in acts or "AddTailLoop" in acts or "AddCfg" in acts) and n[0] % 7 == 0:
            ctx.sample({"builder_program": hist, "expected_edges": exp["edges"]})
    s_cfgs = ([C("RootBQ", 4, 2, ALL_OPS, DF), C("RootBQ", 7, 2, ("H",), CO), C("RootBQ", 7, 2, ("Some",), CO), C("RootBQ", 4, 2, ("Some", "Cont"), LO),
               C("RootBQ", 5, 2, ("Not", "H"), FU), C("RootBQ", 8, 2, (), CF), C("RootBQ", 7, 2, (), CF + ("unit",), sk=2), C("RootBQ", 9, 2, (), CF + ("dom",), sk=25),
               C("RootBQ", 3, 2, ("Not",), IN), C("RootBQ", 4, 2, (), IN + ("nested",), sk=2), C("RootBQ", 6, 2, ("H",), IF), C("RootB", 6, 3, (), ("nested",), ma=1),
               C("Module", 5, 2, ("Not",), DE)] if quick else
              [C("RootBQ", 4, 2, ALL_OPS, DF), C("RootBQ", 7, 2, ("Not",), CO), C("RootBQ", 7, 2, ("Some",), CO), C("RootBQ", 8, 2, ("H",), CO),
               C("RootBQ", 7, 3, ("H",), CO + ("nested",), ma=1), C("RootBQ", 4, 2, ("Some", "None", "Cont", "Brk", "H"), LO), C("RootBQ", 6, 3, (), LO + ("nested",), ma=1),
               C("RootBQ", 8, 3, (), CO + LO, ma=1), C("RootBQ", 6, 2, ("Not",), FU), C("RootBQ", 7, 3, (), FU + CO, ma=1),
               C("RootBQ", 8, 2, (), CF + ("unit",)), C("RootBQ", 7, 2, ("Not", "H"), CF), C("RootBQ", 9, 2, (), CF + ("dom",), sk=2),
               C("RootBQ", 8, 3, (), CF + ("nested", "unit"), sk=4, ma=1), C("RootBQ", 4, 2, ("Not", "H"), IN), C("RootBQ", 4, 2, (), IN + ("nested",)), C("RootBQ", 7, 2, ("H", "Not"), IF),
               C("RootB", 6, 3, (), ("nested",), ma=1), C("RootBQ", 6, 3, ("H",), FU + ("nested",), ma=1), C("Module", 6, 2, ("Not", "H"), DE)])
    if handles_only:
        s_cfgs = ([C("RootBQ", 3, 2, ALL_OPS, DF), C("RootBQ", 7, 2, ("H",), CO), C("RootBQ", 4, 2, ("Some",), LO), C("RootBQ", 8, 2, (), CF), C("RootBQ", 3, 2, ("Not",), IN)] if quick else
                  [C("RootBQ", 4, 2, ALL_OPS, DF), C("RootBQ", 7, 2, ("Some",), CO), C("RootBQ", 8, 2, ("H",), CO), C("RootBQ", 4, 2, ("Some", "None", "Cont", "Brk"), LO),
                   C("RootBQ", 8, 2, (), CF + ("unit",)), C("RootBQ", 4, 2, ("Not", "H"), IN)])
    if only_feature:          # (C08: only the configurations with insert_* calls; judged in full, documents and handles)
        s_cfgs = [c for c in s_cfgs if only_feature in c["fe"]]
    for c in s_cfgs:
        cur_root[0] = c["root"]
        res = run_tlc("MC_HugrBuilder", cfg(c["root"], c["k"], c["depth"], emit=True, ops=c["ops"], features=c["fe"], samplek=c["sk"], maxargs=c["ma"]), wd, workers=8,
                      heap="8g", line_sink=sink, timeout=5000)
        # (several workers: every new state is still judged by EmitFinished exactly once, each PrintT is one atomic line; only the order of the
        # lines and which shortest path is recorded in `hist` vary, neither matters to the replay)
        tlc_must_hold(ctx, f"S2C HugrBuilder finished states {name(c)}", res, "HugrBuilder model (emission)")
    # ---- S->C, random walks: TLC's simulation mode generates long behaviours of the same specification with every family enabled at once
    # (NextB funnels each walk into a finished program: when the budget runs out only closing calls remain enabled); each finished state
    # met on a walk is replayed like the exhaustive ones. This reaches program sizes and feature mixes the exhaustive runs cannot.
    ALLF = ("load", "nested", "order", "cond", "if", "loop", "func", "cfg", "unit", "dom", "insert")
    sims = ([] if handles_only or only_feature else
            [(C("RootBQ", 14, 3, ("Not", "H", "Some"), ALLF), 30)] if quick else
            [(C("RootBQ", 14, 3, ("Not", "H", "Some"), ALLF), 200), (C("RootBQ", 22, 4, ("Not", "H", "Some", "Measure"), ALLF), 120),
             (C("Module", 14, 3, ("Not", "H"), ("func", "decl", "nested", "cond", "loop", "load")), 100)])
    seen_walks = set()
    inner = sink

    def sim_sink(ln):
        if not isinstance(ln, dict) or "doc" not in ln:
            return
        key = json.dumps(ln["hist"])
        if key in seen_walks:
            return
        seen_walks.add(key)
        if len(ln["hist"]) >= 10:
            feats["walk>=10 calls"] += 1
        inner(ln)
    for c, num in sims:
        cur_root[0] = c["root"]
        res = run_tlc("MC_HugrBuilder", cfg(c["root"], c["k"], c["depth"], emit=True, view=False, ops=c["ops"], features=c["fe"], maxargs=c["ma"]), wd, workers=8,
                      heap="8g", line_sink=sim_sink, timeout=5000, simulate=f"num={num}", depth=c["k"] + 2, seed=ctx.seed + 7)
        tlc_must_hold(ctx, f"S2C HugrBuilder random walks {name(c)} num={num}", res, "HugrBuilder model (simulation)")
    ctx.note("builder_model_walk_programs_replayed", len(seen_walks))
    if sims and not feats["walk>=10 calls"]:
        raise MachineryError("builder model: simulation produced no finished program of >= 10 calls")
    if drift:
        from ..docs import judge
        verdicts, resj = judge([(nm, dd) for nm, dd, _, _ in drift], wd, "drift", timeout=3000)
        ctx.add_tlc(f"C2S documents that differ from HugrBuilder!Doc judged by HugrValidity ({len(drift)})", resj)
        for nm, dd, hh, what in drift:
            f = sorted(verdicts[nm]["failing"])
            if f:
                ctx.violation({"source": "builder-model", "root": nm.split(":")[1], "last": hh[-1]["a"], "clauses": "+".join(f)}, {"hist": hh, "document": dd},
                              "the serialized HUGR is valid", f, clause="HugrValidity!" + f[0], leg="S2C")
        ctx.note("builder_model_documents_differing_from_model", {"count": feats["differs-from-model-document"], "judged": len(drift)})
    ctx.note("builder_model_comparison_guard_cases", guard[0])
    ctx.note("builder_model_finished_states_replayed", n[0])
    ctx.note("builder_model_features", dict(feats))
    need = (("insert:nestext", "insert:loop", "insert:cond", "insert:cfg", "insert-in-nested-region") if only_feature == "insert" else ("nested", "cond", "loop", "cfg", "insert") if handles_only else
            ("nested", "cond", "cond-with-outputs", "loop", "loop-just-inputs", "call", "recursive-call", "cfg", "cfg-2-blocks", "dom-wire", "insert:nestext", "insert:loop",
             "insert:cond", "insert:cfg", "if-else", "module-root", "row-poly-call"))
    if n[0] < 50 or not all(feats[f] for f in need):
        raise MachineryError(f"builder model: only {n[0]} finished states, features {dict(feats)}")


def _canonical(nodes_norm, parents, edges):
    """relabel by pre-order of the hierarchy (children in document order): (ops with canonical parents, edge bag)"""
    kids = {i: [] for i in range(len(parents))}
    for i, p in enumerate(parents):
        if i != 0 and 0 <= p < len(parents):
            kids[p].append(i)
    order, stack = [], [0]
    while stack:
        x = stack.pop()
        order.append(x)
        stack.extend(reversed(kids[x]))
    new = {old: k for k, old in enumerate(order)}
    out = []
    for old in order:
        nd = dict(nodes_norm[old]) if isinstance(nodes_norm[old], dict) else nodes_norm[old]
        if isinstance(nd, dict):
            nd["parent"] = new.get(parents[old], -1)
        out.append(nd)
    eb = Counter(json.dumps([[new.get(e[0][0], -1), e[0][1]], [new.get(e[1][0], -1), e[1][1]]]) for e in edges)
    return out, eb


def nodes_parent_is_case(doc, idx):
    return doc["nodes"][idx].get("op") == "Case"


def replay_case(body) -> bool:
    """re-executes a builder-model case ({"hist": [...]}) on the real builders and prints what they produced"""
    case = body.get("case", {})
    if not (isinstance(case, dict) and "hist" in case and body.get("sig", {}).get("source") == "builder-model"):
        return False
    rt = body.get("sig", {}).get("root", "RootBQ")
    root_inputs = "module" if rt == "Module" else [{"t": "Sum", "s": "Unit", "size": 2}, {"t": "Q"}] if rt == "RootBQ" else [{"t": "Sum", "s": "Unit", "size": 2}]
    for ev in case["hist"]:
        print(ev)
    try:
        h, handles = replay(case["hist"], root_inputs)
    except Exception as e:  # noqa: BLE001
        print("IMPLEMENTATION RAISED", repr(e))
        return True
    doc = json.loads(h.to_json())
    for i, n in enumerate(doc["nodes"]):
        print(i, json.dumps(n)[:300])
    print("edges", doc["edges"])
    for idx, node in sorted(handles.items()):
        try:
            print("handle", idx, "outputs", len(list(node)))
        except ValueError:
            print("handle", idx, "unknown count")
    print("clause:", body.get("clause"), "expected:", json.dumps(body.get("expected"))[:600], "observed:", json.dumps(body.get("observed"))[:600])
    return True


def run_refusals(ctx: Ctx, wd) -> None:
    """C13 on the builder state machine: every program of HugrBuilder.tla that ends in exactly one inconsistent call (BadNext: a wire from
    a region that is not visible, disagreeing cases, a case index out of range / built twice, a conditional left with unbuilt cases, a
    mismatching exit branch, outputs other than the declared ones, serializing an incomplete HUGR) is replayed on the real builders; the
    last call must raise the error class the specification names."""
    quick = ctx.tier == "quick"
    roots = {"RootBQ": [{"t": "Sum", "s": "Unit", "size": 2}, {"t": "Q"}]}
    # (root, K, depth, ops, features, MaxArgs, SampleK)
    cfgs = ([("RootBQ", 4, 2, ("Not",), ("nested", "refuse"), 2, 1), ("RootBQ", 5, 2, ("Not",), ("cond", "if", "refuse"), 2, 5),
             ("RootBQ", 4, 2, ("Not",), ("func", "refuse"), 2, 1), ("RootBQ", 6, 2, ("Some",), ("cfg", "refuse"), 1, 4),
             ("RootBQ", 4, 3, ("Not",), ("func", "nested", "refuse"), 1, 2)] if quick else
            [("RootBQ", 4, 2, ("Not", "H"), ("nested", "load", "refuse"), 2, 1), ("RootBQ", 5, 2, ("Not",), ("cond", "if", "refuse"), 2, 1),
             ("RootBQ", 5, 2, ("Not",), ("func", "refuse"), 2, 1), ("RootBQ", 6, 2, ("Some",), ("cfg", "refuse"), 2, 8),
             ("RootBQ", 5, 2, ("Not",), ("cfg", "func", "refuse"), 2, 2), ("RootBQ", 5, 2, (), ("cfg", "unit", "refuse"), 2, 1),
             ("RootBQ", 5, 3, ("Not",), ("cond", "nested", "loop", "refuse"), 1, 2)])
    n = [0]
    seen = Counter()
    cur = [None]

    def sink(ln):
        if not isinstance(ln, dict) or "refused" not in ln:
            return
        n[0] += 1
        ctx.evaluations += 1
        hist, want = ln["hist"], ln["refused"]
        last = hist[-1]
        sig = {"source": "builder-model-refusal", "last": last["a"], "class": want}
        try:
            got = replay_refusal(hist, roots[cur[0]])
        except Exception as e:  # noqa: BLE001  (a call of the well-formed prefix raised)
            ctx.violation(dict(sig, clauses="prefix raised"), {"hist": hist}, "the well-formed prefix is accepted", repr(e)[:300], clause="HugrBuilder!Next", leg="S2C")
            return
        seen[f"{last['a']}:{want}"] += 1
        if len(hist) >= 3:
            ctx.nontriv(hist)
        if got is None:
            ctx.violation(dict(sig, clauses="silently accepted"), {"hist": hist}, f"raises {want}", "no error", clause="HugrBuilder!BadNext", leg="S2C")
        elif got != want and not (want == "ValueError" and got in ("ValueError",)):
            ctx.violation(dict(sig, clauses=f"raised {got}"), {"hist": hist}, f"raises {want}", got, clause="HugrBuilder!BadNext (documented error)", leg="S2C")
        elif n[0] % 997 == 0:
            ctx.sample({"inconsistent_program": hist, "raises": got})
    for root, k, depth, ops_, fe, ma, sk in cfgs:
        cur[0] = root
        res = run_tlc("MC_HugrBuilder", cfg(root, k, depth, ops=ops_, features=fe, maxargs=ma, samplek=sk, emit_refused=True), wd, workers=16, heap="10g",
                      line_sink=sink, timeout=5000)
        tlc_must_hold(ctx, f"S2C HugrBuilder refusals {root} K={k} depth<={depth} ops={','.join(ops_)} features={','.join(fe)} args<={ma}"
                      + (f" (every {sk}th state)" if sk > 1 else ""), res, "HugrBuilder model (refusals)")
    # random walks (thorough): an inconsistent call at positions deep inside long programs with every family enabled
    if not quick:
        feats_all = ("load", "nested", "cond", "loop", "func", "cfg", "unit", "insert", "if", "dom", "order", "refuse")
        seen_keys = set()
        inner = sink

        def sim_sink(ln):
            if isinstance(ln, dict) and "refused" in ln:
                key = json.dumps(ln["hist"])
                if key not in seen_keys:
                    seen_keys.add(key)
                    inner(ln)
        cur[0] = "RootBQ"
        res = run_tlc("MC_HugrBuilder", cfg("RootBQ", 14, 3, ops=("Not", "H", "Some"), features=feats_all, samplek=3, emit_refused=True, view=False), wd, workers=8,
                      heap="8g", line_sink=sim_sink, timeout=5000, simulate="num=150", depth=16, seed=ctx.seed + 5)
        tlc_must_hold(ctx, "S2C HugrBuilder refusals on random walks RootBQ K=14 depth<=3 all families (every 3rd state)", res, "HugrBuilder model (refusals, simulation)")
        ctx.note("builder_model_refusals_on_walks", len(seen_keys))
    ctx.note("builder_model_refusals_replayed", n[0])
    ctx.note("builder_model_refusal_classes", dict(seen))
    need = ("AddOp:NoSiblingAncestor", "AddOp:NotInSameCfg", "SetOutputs:ConditionalError", "AddCase:ConditionalError", "ExitConditional:ConditionalError",
            "BranchExit:MismatchedExit", "SetOutputs:ValueError", "Serialize:IncompleteOp")
    if not all(seen[x] for x in need):
        raise MachineryError(f"builder model refusals: classes never exercised: {[x for x in need if not seen[x]]}")


def model_hugrs(wd, seed: int, num: int, k: int = 14) -> list:
    """Module-rooted HUGRs built by replaying random walks of HugrBuilder.tla (TLC simulation, every family enabled): inputs for the
    document-level properties (export, rendering). Returns [(name, Hugr, hist)]; programs whose replay fails are C01's business and skipped."""
    import hashlib
    feats = ("func", "decl", "load", "nested", "cond", "if", "loop", "cfg", "unit", "dom", "insert", "order")
    out, seen = [], set()

    def sink(ln):
        if not isinstance(ln, dict) or "doc" not in ln:
            return
        key = json.dumps(ln["hist"])
        if key in seen or len(ln["hist"]) < 4:
            return
        seen.add(key)
        try:
            h, _ = replay(ln["hist"], "module")
        except Exception:  # noqa: BLE001
            return
        out.append(("model:" + hashlib.sha1(key.encode()).hexdigest()[:10], h, ln["hist"]))
    res = run_tlc("MC_HugrBuilder", cfg("Module", k, 3, emit=True, view=False, ops=("Not", "H", "Some"), features=feats), wd, workers=8, heap="8g",
                  line_sink=sink, timeout=3000, simulate=f"num={num}", depth=k + 2, seed=seed + 11)
    if not res.ok:
        raise MachineryError(f"HugrBuilder simulation failed: {res.violated} {res.error_text[-300:]}")
    out.sort(key=lambda x: x[0])
    return out
