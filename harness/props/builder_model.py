"""C01 (and C16 b): the explicit builder state machine HugrBuilder.tla.
leg M: TLC checks Finished => Valid(Doc) over all programs of <= K builder calls.
S->C: every distinct finished state (first BFS path) is replayed on the real builders; the document the implementation
serializes must equal the model's Doc node for node and edge for edge, and handles must report the model's output counts."""
from __future__ import annotations

import json
from collections import Counter

from .. import wire as W
from ..common import Ctx, tlc_must_hold
from ..tlc import MachineryError, run_tlc


def cfg(root, k, depth, emit=False, view=True):
    c = ["INIT Init", "NEXT Next", f"CONSTANT RootInputs <- {root}", f"CONSTANT MaxCalls = {k}", f"CONSTANT MaxDepth = {depth}",
         "INVARIANT FinishedValid", "CHECK_DEADLOCK FALSE"]
    if view:
        c.append("VIEW View")
    if emit:
        c.append("INVARIANT EmitFinished")
    return "\n".join(c) + "\n"


def op_of(name):
    from hugr import ops, tys
    from hugr.std.logic import Not
    q, b = tys.Qubit, tys.Bool
    table = {"Not": lambda: Not, "H": lambda: ops.Custom("H", tys.FunctionType([q], [q]), "", "verif.q", []),
             "Measure": lambda: ops.Custom("Measure", tys.FunctionType([q], [q, b]), "", "verif.q", []),
             "QAlloc": lambda: ops.Custom("QAlloc", tys.FunctionType([], [q]), "", "verif.q", []),
             "QFree": lambda: ops.Custom("QFree", tys.FunctionType([q], []), "", "verif.q", [])}
    return table[name]()


def replay(hist, root_inputs):
    from hugr import val
    from hugr.build.dfg import Dfg
    d = Dfg(*[W.build_type(t) for t in root_inputs])
    builders = {0: d}
    h = d.hugr
    handles = {}

    def wire(w):
        from hugr.hugr.node_port import Node
        return Node(w[0]).out(w[1])
    for ev in hist:
        b = builders[ev["ctx"]]
        a = ev["a"]
        if a == "AddOp":
            n = b.add_op(op_of(ev["op"]), *[wire(w) for w in ev["args"]])
            handles[n.idx] = n
        elif a == "Load":
            n = b.load(val.TRUE)
            handles[n.idx] = n
        elif a == "AddNested":
            nb = b.add_nested(*[wire(w) for w in ev["args"]])
            builders[nb.parent_node.idx] = nb
        elif a == "AddStateOrder":
            from hugr.hugr.node_port import Node
            b.add_state_order(Node(ev["x"]), Node(ev["y"]))
        elif a == "SetOutputs":
            b.set_outputs(*[wire(w) for w in ev["args"]])
            handles[b.parent_node.idx] = b.parent_node
        else:
            raise MachineryError(f"unknown builder action {a}")
    return h, handles


def norm_node(n):
    n = W.canon(W.strip_hugr(W.from_tla(n)))
    if isinstance(n, dict) and n.get("op") == "Extension":
        n = dict(n)
        n.pop("description", None)          # descriptions of extension ops are C05's business
    return n


def run(ctx: Ctx, wd) -> None:
    quick = ctx.tier == "quick"
    # ---- leg M
    for root, k, depth in ([("RootBQ", 4, 2)] if quick else [("RootBQ", 4, 3), ("RootB", 5, 2)]):
        res = run_tlc("MC_HugrBuilder", cfg(root, k, depth), wd, workers=16, heap="10g", want_lines=False, timeout=3000)
        tlc_must_hold(ctx, f"M HugrBuilder {root} K={k} depth<={depth}: Finished => Valid(Doc)", res, "HugrBuilder model")
    # ---- S->C: every distinct finished state
    root, k, depth = ("RootBQ", 3, 2) if quick else ("RootBQ", 4, 2)
    root_inputs = [{"t": "Sum", "s": "Unit", "size": 2}, {"t": "Q"}]
    n = [0]
    feats = Counter()

    def sink(ln):
        if not isinstance(ln, dict) or "doc" not in ln:
            return
        n[0] += 1
        ctx.evaluations += 1
        hist = ln["hist"]
        acts = [e["a"] for e in hist]
        sig = {"source": "builder-model", "last": acts[-1]}
        if "AddNested" in acts:
            feats["nested"] += 1
            ctx.nontriv(hist)
        if any(e["a"] in ("AddOp", "SetOutputs", "AddNested") and any(True for w in e["args"]) for e in hist):
            feats["wired"] += 1
        try:
            h, handles = replay(hist, root_inputs)
            doc = json.loads(h.to_json())
        except Exception as e:  # noqa: BLE001
            ctx.violation(dict(sig, clauses=f"exception {type(e).__name__}"), {"hist": hist}, "the builders accept the program", repr(e)[:300],
                          clause="HugrBuilder!Next", leg="S2C")
            return
        exp = ln["doc"]
        en = [norm_node(x) for x in exp["nodes"]]
        on = [norm_node(x) for x in doc["nodes"]]
        if en != on:
            k2 = next((i for i, (a, b) in enumerate(zip(en, on)) if a != b), min(len(en), len(on)))
            ctx.violation(dict(sig, clauses="nodes"), {"hist": hist}, en[k2] if k2 < len(en) else None, on[k2] if k2 < len(on) else None,
                          clause=f"HugrBuilder!Doc.nodes[{k2}]", leg="S2C")
            return
        ee = Counter(json.dumps(e) for e in exp["edges"])
        oe = Counter(json.dumps(e) for e in doc["edges"])
        if ee != oe:
            ctx.violation(dict(sig, clauses="edges"), {"hist": hist}, sorted((ee - oe).elements())[:4], sorted((oe - ee).elements())[:4],
                          clause="HugrBuilder!Doc.edges", leg="S2C")
            return
        if any(e[0][1] >= 1 and e[1][1] >= 0 for e in exp["edges"]) and "AddNested" in acts:
            feats["ext-or-order"] += 1
        counts = {int(a): b for a, b in ln["counts"]}
        for idx, node in handles.items():
            try:
                got = len(list(node))
            except ValueError:
                got = "ValueError"
            if idx in counts and got != counts[idx]:
                ctx.violation(dict(sig, clauses="handle count"), {"hist": hist, "node": idx}, counts[idx], got, clause="HugrBuilder!HandleCounts", leg="S2C")
                return
        if len(hist) >= 3 and "AddNested" in acts:
            ctx.sample({"builder_program": hist, "expected_edges": exp["edges"]})
    res = run_tlc("MC_HugrBuilder", cfg(root, k, depth, emit=True), wd, workers=1, heap="8g", line_sink=sink, timeout=3000)
    tlc_must_hold(ctx, f"S2C HugrBuilder finished states {root} K={k}", res, "HugrBuilder model (emission)")
    ctx.note("builder_model_finished_states_replayed", n[0])
    ctx.note("builder_model_features", dict(feats))
    if n[0] < 50 or not feats["nested"]:
        raise MachineryError(f"builder model: only {n[0]} finished states, features {dict(feats)}")
