"""C01 (and C16 b): the explicit builder state machine HugrBuilder.tla.
leg M: TLC checks Finished => Valid(Doc) over all programs of <= K builder calls.
S->C: every distinct finished state (first BFS path) is replayed on the real builders; the document the implementation
serializes must equal the model's Doc node for node and edge for edge, and handles must report the model's output counts."""
from __future__ import annotations

import json
from collections import Counter

from .. import wire as W
from ..common import Ctx, tlc_must_hold
from ..tlc import MachineryError, run_tlc


ALL_OPS = ("Not", "H", "Measure", "QAlloc", "QFree")
DF_FEATURES = ("load", "nested", "order")


def cfg(root, k, depth, emit=False, view=True, ops=ALL_OPS, features=DF_FEATURES):
    tset = lambda xs: "{" + ", ".join(f'"{x}"' for x in xs) + "}"  # noqa: E731
    c = ["INIT Init", "NEXT NextB", f"CONSTANT RootInputs <- {root}", f"CONSTANT MaxCalls = {k}", f"CONSTANT MaxDepth = {depth}",
         f"CONSTANT Ops = {tset(ops)}", f"CONSTANT Features = {tset(features)}",
         "INVARIANT FinishedValid", "CHECK_DEADLOCK FALSE"]
    if view:
        c.append("VIEW View")
    if emit:
        c.append("INVARIANT EmitFinished")
    return "\n".join(c) + "\n"


def op_of(name):
    from hugr import ops, tys
    from hugr.std.logic import Not
    q, b = tys.Qubit, tys.Bool
    table = {"Not": lambda: Not, "H": lambda: ops.Custom("H", tys.FunctionType([q], [q]), "", "verif.q", []),
             "Measure": lambda: ops.Custom("Measure", tys.FunctionType([q], [q, b]), "", "verif.q", []),
             "QAlloc": lambda: ops.Custom("QAlloc", tys.FunctionType([], [q]), "", "verif.q", []),
             "QFree": lambda: ops.Custom("QFree", tys.FunctionType([q], []), "", "verif.q", []),
             "Some": lambda: ops.Tag(1, tys.Sum([[], [b]])), "None": lambda: ops.Tag(0, tys.Sum([[], [b]])),
             "Cont": lambda: ops.Tag(0, tys.Sum([[b], []])), "Brk": lambda: ops.Tag(1, tys.Sum([[b], []]))}
    return table[name]()


def replay(hist, root_inputs):
    from hugr import val
    from hugr.build.dfg import Dfg
    d = Dfg(*[W.build_type(t) for t in root_inputs])
    builders = {0: d}
    h = d.hugr
    handles = {}
    conds = []
    cfgs = []

    def wire(w):
        from hugr.hugr.node_port import Node
        return Node(w[0]).out(w[1])
    for ev in hist:
        b = builders[ev["ctx"]]
        a = ev["a"]
        if a == "AddOp":
            n = b.add_op(op_of(ev["op"]), *[wire(w) for w in ev["args"]])
            handles[n.idx] = n
        elif a == "Load":
            n = b.load(val.TRUE)
            handles[n.idx] = n
        elif a == "AddNested":
            nb = b.add_nested(*[wire(w) for w in ev["args"]])
            builders[nb.parent_node.idx] = nb
        elif a == "AddStateOrder":
            from hugr.hugr.node_port import Node
            b.add_state_order(Node(ev["x"]), Node(ev["y"]))
        elif a == "AddConditional":
            cb = b.add_conditional(*[wire(w) for w in ev["args"]])
            builders[cb.parent_node.idx] = cb
            conds.append(cb)
        elif a == "DefineFunction":
            fb = b.define_function("f", [W.build_type(t) for t in ev["ins"]], [W.build_type(t) for t in ev["outs"]] if ev["declared"] else None)
            builders[fb.parent_node.idx] = fb
        elif a == "Call":
            from hugr.hugr.node_port import Node
            n = b.call(Node(ev["f"]), *[wire(w) for w in ev["args"]])
            handles[n.idx] = n
        elif a == "LoadFunction":
            from hugr.hugr.node_port import Node
            b.load_function(Node(ev["f"]))           # (C16 does not list load_function: its handle has no known count)
        elif a == "LoadUnit":
            n = b.load(val.Unit)
            handles[n.idx] = n
        elif a == "AddCfg":
            cb = b.add_cfg(*[wire(w) for w in ev["args"]])
            builders[cb.parent_node.idx] = cb
            cfgs.append(cb)
        elif a == "AddEntry":
            blk = b.add_entry()
            builders[blk.parent_node.idx] = blk
        elif a == "AddBlock":
            blk = b.add_block(*[W.build_type(t) for t in ev["row"]])
            builders[blk.parent_node.idx] = blk
        elif a == "AddSuccessor":
            from hugr.hugr.node_port import Node
            blk = b.add_successor(Node(ev["b"]).out(ev["i"]))
            builders[blk.parent_node.idx] = blk
        elif a == "Branch":
            from hugr.hugr.node_port import Node
            b.branch(Node(ev["b"]).out(ev["i"]), Node(ev["dst"]))
        elif a == "BranchExit":
            from hugr.hugr.node_port import Node
            b.branch_exit(Node(ev["b"]).out(ev["i"]))
        elif a == "AddTailLoop":
            nb = b.add_tail_loop([wire(w) for w in ev["just"]], [wire(w) for w in ev["rest"]])
            builders[nb.parent_node.idx] = nb
        elif a == "AddCase":
            case = b.add_case(ev["i"])
            builders[case.parent_node.idx] = case
        elif a == "SetOutputs":
            b.set_outputs(*[wire(w) for w in ev["args"]])
            if type(b).__name__ not in ("Case", "Function", "Block"):      # C16 names dataflow graph, CFG, conditional and tail-loop builders
                handles[b.parent_node.idx] = b.parent_node
        else:
            raise MachineryError(f"unknown builder action {a}")
    for cb in conds + cfgs:
        handles[cb.parent_node.idx] = cb.parent_node
    return h, handles


def norm_node(n):
    n = W.canon(W.strip_hugr(W.from_tla(n)))
    if isinstance(n, dict) and n.get("op") == "Extension":
        n = dict(n)
        n.pop("description", None)          # descriptions of extension ops are C05's business
    return n


def run(ctx: Ctx, wd, handles_only: bool = False) -> None:
    """handles_only (C16 b): only the S->C leg, only the handle counts are judged (documents are C01's business)."""
    quick = ctx.tier == "quick"
    DF, CO, LO, FU = DF_FEATURES, ("cond",), ("loop",), ("func",)
    # ---- leg M: (root, K, depth, ops, features)
    m_cfgs = ([("RootBQ", 4, 2, ALL_OPS, DF), ("RootBQ", 6, 2, ("Not", "Some"), CO), ("RootBQ", 8, 2, ("H",), CO),
               ("RootBQ", 4, 2, ("Some", "None", "Cont", "Brk"), LO), ("RootBQ", 5, 2, ("Not", "H"), FU)] if quick else
              [("RootBQ", 5, 2, ALL_OPS, DF), ("RootB", 5, 2, ALL_OPS, DF), ("RootBQ", 6, 3, ("Not",), ("load", "nested")),
               ("RootBQ", 7, 2, ("Not", "Some"), CO), ("RootBQ", 8, 2, ("H", "Measure"), CO), ("RootBQ", 7, 3, ("H",), CO + ("nested",)),
               ("RootBQ", 5, 2, ("Some", "None"), LO), ("RootBQ", 5, 2, ("Cont", "Brk", "H"), LO), ("RootBQ", 6, 3, (), LO + ("nested",)),
               ("RootBQ", 8, 3, (), CO + LO), ("RootBQ", 6, 2, ("Not",), FU), ("RootBQ", 6, 3, ("H",), FU + ("nested",)), ("RootBQ", 7, 3, (), FU + CO)])
    for root, k, depth, ops_, fe in ([] if handles_only else m_cfgs):
        res = run_tlc("MC_HugrBuilder", cfg(root, k, depth, ops=ops_, features=fe), wd, workers=16, heap="10g", want_lines=False, timeout=5000)
        tlc_must_hold(ctx, f"M HugrBuilder {root} K={k} depth<={depth} ops={','.join(ops_)} features={','.join(fe)}: Finished => Valid(Doc)", res,
                      "HugrBuilder model")
    # ---- S->C: every distinct finished state
    root_inputs = [{"t": "Sum", "s": "Unit", "size": 2}, {"t": "Q"}]
    n = [0]
    feats = Counter()

    def sink(ln):
        if not isinstance(ln, dict) or "doc" not in ln:
            return
        n[0] += 1
        ctx.evaluations += 1
        hist = ln["hist"]
        acts = [e["a"] for e in hist]
        sig = {"source": "builder-model", "last": acts[-1]}
        if "AddNested" in acts:
            feats["nested"] += 1
            ctx.nontriv(hist)
        if "AddConditional" in acts:
            feats["cond"] += 1
            ctx.nontriv(hist)
            if any(e["a"] == "SetOutputs" and e["args"] and nodes_parent_is_case(ln["doc"], e["ctx"]) for e in hist):
                feats["cond-with-outputs"] += 1
        if "DefineFunction" in acts:
            feats["func"] += 1
            if "Call" in acts:
                feats["call"] += 1
                ctx.nontriv(hist)
            if any(e["a"] == "Call" and e["ctx"] == e["f"] for e in hist):
                feats["recursive-call"] += 1
        if "AddTailLoop" in acts:
            feats["loop"] += 1
            ctx.nontriv(hist)
            if any(e["a"] == "AddTailLoop" and e["just"] for e in hist):
                feats["loop-just-inputs"] += 1
        if any(e["a"] in ("AddOp", "SetOutputs", "AddNested", "AddConditional") and any(True for w in e["args"]) for e in hist):
            feats["wired"] += 1
        try:
            h, handles = replay(hist, root_inputs)
            doc = json.loads(h.to_json())
        except Exception as e:  # noqa: BLE001
            if not handles_only:
                ctx.violation(dict(sig, clauses=f"exception {type(e).__name__}"), {"hist": hist}, "the builders accept the program", repr(e)[:300],
                              clause="HugrBuilder!Next", leg="S2C")
            return
        exp = ln["doc"]
        en = [norm_node(x) for x in exp["nodes"]]
        on = [norm_node(x) for x in doc["nodes"]]
        if en != on and not handles_only:
            k2 = next((i for i, (a, b) in enumerate(zip(en, on)) if a != b), min(len(en), len(on)))
            ctx.violation(dict(sig, clauses="nodes"), {"hist": hist}, en[k2] if k2 < len(en) else None, on[k2] if k2 < len(on) else None,
                          clause=f"HugrBuilder!Doc.nodes[{k2}]", leg="S2C")
            return
        ee = Counter(json.dumps(e) for e in exp["edges"])
        oe = Counter(json.dumps(e) for e in doc["edges"])
        if ee != oe and not handles_only:
            ctx.violation(dict(sig, clauses="edges"), {"hist": hist}, sorted((ee - oe).elements())[:4], sorted((oe - ee).elements())[:4],
                          clause="HugrBuilder!Doc.edges", leg="S2C")
            return
        if any(e[0][1] >= 1 and e[1][1] >= 0 for e in exp["edges"]) and "AddNested" in acts:
            feats["ext-or-order"] += 1
        counts = {int(a): b for a, b in ln["counts"]}
        for idx, node in handles.items():
            try:
                got = len(list(node))
            except ValueError:
                got = "ValueError"
            if idx in counts and got != counts[idx]:
                ctx.violation(dict(sig, clauses="handle count"), {"hist": hist, "node": idx}, counts[idx], got, clause="HugrBuilder!HandleCounts", leg="S2C")
                return
        if len(hist) >= 3 and ("AddNested" in acts or "AddConditional" in acts or "AddTailLoop" in acts) and n[0] % 7 == 0:
            ctx.sample({"builder_program": hist, "expected_edges": exp["edges"]})
    s_cfgs = ([("RootBQ", 4, 2, ALL_OPS, DF), ("RootBQ", 7, 2, ("H",), CO), ("RootBQ", 7, 2, ("Some",), CO), ("RootBQ", 4, 2, ("Some", "Cont"), LO), ("RootBQ", 5, 2, ("Not", "H"), FU)] if quick else
              [("RootBQ", 4, 2, ALL_OPS, DF), ("RootBQ", 7, 2, ("Not",), CO), ("RootBQ", 7, 2, ("Some",), CO), ("RootBQ", 8, 2, ("H",), CO), ("RootBQ", 7, 3, ("H",), CO + ("nested",)),
               ("RootBQ", 4, 2, ("Some", "None", "Cont", "Brk", "H"), LO), ("RootBQ", 6, 3, (), LO + ("nested",)), ("RootBQ", 8, 3, (), CO + LO), ("RootBQ", 6, 2, ("Not",), FU), ("RootBQ", 7, 3, (), FU + CO)])
    if handles_only:
        s_cfgs = ([("RootBQ", 3, 2, ALL_OPS, DF), ("RootBQ", 7, 2, ("H",), CO), ("RootBQ", 4, 2, ("Some",), LO)] if quick else
                  [("RootBQ", 4, 2, ALL_OPS, DF), ("RootBQ", 7, 2, ("Some",), CO), ("RootBQ", 8, 2, ("H",), CO), ("RootBQ", 4, 2, ("Some", "None", "Cont", "Brk"), LO)])
    for root, k, depth, ops_, fe in s_cfgs:
        res = run_tlc("MC_HugrBuilder", cfg(root, k, depth, emit=True, ops=ops_, features=fe), wd, workers=1, heap="8g", line_sink=sink, timeout=5000)
        tlc_must_hold(ctx, f"S2C HugrBuilder finished states {root} K={k} ops={','.join(ops_)} features={','.join(fe)}", res, "HugrBuilder model (emission)")
    ctx.note("builder_model_finished_states_replayed", n[0])
    ctx.note("builder_model_features", dict(feats))
    need = ("nested", "cond", "loop") if handles_only else ("nested", "cond", "cond-with-outputs", "loop", "loop-just-inputs", "call", "recursive-call")
    if n[0] < 50 or not all(feats[f] for f in need):
        raise MachineryError(f"builder model: only {n[0]} finished states, features {dict(feats)}")


def nodes_parent_is_case(doc, idx):
    return doc["nodes"][idx].get("op") == "Case"


def replay_case(body) -> bool:
    """re-executes a builder-model case ({"hist": [...]}) on the real builders and prints what they produced"""
    case = body.get("case", {})
    if not (isinstance(case, dict) and "hist" in case and body.get("sig", {}).get("source") == "builder-model"):
        return False
    root_inputs = [{"t": "Sum", "s": "Unit", "size": 2}, {"t": "Q"}]
    for ev in case["hist"]:
        print(ev)
    try:
        h, handles = replay(case["hist"], root_inputs)
    except Exception as e:  # noqa: BLE001
        print("IMPLEMENTATION RAISED", repr(e))
        return True
    doc = json.loads(h.to_json())
    for i, n in enumerate(doc["nodes"]):
        print(i, json.dumps(n)[:300])
    print("edges", doc["edges"])
    for idx, node in sorted(handles.items()):
        try:
            print("handle", idx, "outputs", len(list(node)))
        except ValueError:
            print("handle", idx, "unknown count")
    print("clause:", body.get("clause"), "expected:", json.dumps(body.get("expected"))[:600], "observed:", json.dumps(body.get("observed"))[:600])
    return True
