"""C16 — node handles enumerate exactly their operation's value outputs (spec: NodeHandle.tla; builder part: HugrBuilder)."""
from __future__ import annotations

import json

from ..common import Ctx, tlc_must_hold
from ..tlc import MachineryError, cleanup, run_tlc, workdir

NONE = 1000


def py(x):
    return None if x == NONE else x


def observe(node, mode, a, b, s):
    try:
        if mode == "index":
            p = node[a]
            return {"res": "ok", "v": [p.offset], "_node_ok": p.node.idx == node.idx and type(p).__name__ == "OutPort"}
        it = node[slice(py(a), py(b), py(s))]
        ports = list(it)
        return {"res": "ok", "v": [p.offset for p in ports],
                "_node_ok": all(p.node.idx == node.idx and type(p).__name__ == "OutPort" for p in ports)}
    except IndexError:
        return {"res": "IndexError", "v": []}
    except ValueError:
        return {"res": "ValueError", "v": []}


def handles(n):
    """Handles with output count n obtained in the ways the property names for the graph level:
    a bare Node with explicit count, Hugr.add_node(..., num_outs=n), and the node as re-read from the parent's child list."""
    from hugr import ops, tys
    from hugr.hugr import Hugr
    from hugr.hugr.node_port import Node
    cnt = None if n < 0 else n
    yield "Node()", Node(7, {"m": 1}, cnt)
    h = Hugr()
    sig = tys.FunctionType([], [tys.Bool] * max(n, 0))
    nd = h.add_node(ops.DFG([], sig.output if cnt is not None else None), h.root, num_outs=cnt)
    yield "add_node", nd
    yield "children()", h.children(h.root)[0]


def run(ctx: Ctx) -> None:
    from hugr.hugr.node_port import InPort, Node, OutPort
    quick = ctx.tier == "quick"
    maxn, maxi = (4, 7) if quick else (6, 10)
    ctx.rule = ("every (count n incl. unknown, index) and (n, start, stop, step) in the bounded domain is enumerated by TLC from "
                "NodeHandle.tla; each is evaluated on real Node handles obtained three ways; non-trivial = negative or "
                "out-of-range bound, step > 1 or unknown count; distinct = distinct (mode, n, a, b, s).")
    ctx.assumptions = ["step in {None,1,2,3}; negative/zero steps outside the property",
                       "for handles without a count only i >= 0, [:] and iteration are in the domain"]
    wd = workdir("c16")
    try:
        cfg = (f"INIT Init\nNEXT Next\nCONSTANT MaxN = {maxn}\nCONSTANT MaxI = {maxi}\nINVARIANT Laws\nINVARIANT Emit\nCHECK_DEADLOCK FALSE\n")
        cnt = [0]

        def sink(ln):
            if not isinstance(ln, dict) or "mode" not in ln:
                return
            cnt[0] += 1
            n, a, b, s, mode = ln["n"], ln["a"], ln["b"], ln["s"], ln["mode"]
            exp = ln["exp"]
            key = (mode, n, a, b, s)
            if n < 0 or (a != NONE and (a < 0 or a >= max(n, 0))) or (b != NONE and (b < 0 or b > max(n, 0))) or s not in (NONE, 1):
                ctx.nontriv(str(key))
            if mode == "slice" and n == 4 and a == -3 and s == 2:
                ctx.sample({"n": n, "slice": [py(a), py(b), py(s)], "expected": exp})
            for how, node in handles(n):
                ctx.evaluations += 1
                ob = observe(node, mode, a, b, s)
                if ob["res"] != exp["res"] or ob["v"] != list(exp["v"]) or ob.get("_node_ok") is False:
                    ctx.violation({"mode": mode, "how": how, "exp": exp["res"], "obs": ob["res"]},
                                  {"mode": mode, "n": n, "a": a, "b": b, "s": s, "how": how}, exp, ob,
                                  clause="NodeHandle!Slice" if mode == "slice" else "NodeHandle!Index")
                    break
                # cross-check of the specification's reading of Python semantics: range(n)[a:b:s]
                if mode == "slice" and n >= 0 and exp["res"] == "ok":
                    if list(range(n))[slice(py(a), py(b), py(s))] != list(exp["v"]):
                        raise MachineryError(f"NodeHandle.RangeSlice disagrees with CPython for {key}")
                if mode == "slice" and a == NONE and b == NONE and s == NONE:
                    # iteration and outputs() are the full slice
                    try:
                        it = {"res": "ok", "v": [p.offset for p in node]}
                        it2 = [p.offset for p in node.outputs()]
                        if it2 != it["v"]:
                            it = {"res": "inconsistent", "v": it2}
                    except ValueError:
                        it = {"res": "ValueError", "v": []}
                    if it["res"] != exp["res"] or it["v"] != list(exp["v"]):
                        ctx.violation({"mode": "iter", "how": how, "exp": exp["res"], "obs": it["res"]},
                                      {"mode": "iter", "n": n, "how": how}, exp, it, clause="NodeHandle!Iter")
                        break
        res = run_tlc("MC_NodeHandle", cfg, wd, workers=1, line_sink=sink)
        tlc_must_hold(ctx, f"M+S2C handles n<={maxn} |i|<={maxi}", res, "NodeHandle model")
        ctx.exhaustive = True
        if cnt[0] < 500:
            raise MachineryError("too few cases emitted")
        # ---- wire meaning and port identity (small finite facts stated by the property)
        for n in [None, 0, 1, 3]:
            for idx in (0, 5):
                ctx.evaluations += 1
                a = Node(idx, {"x": 1}, n)
                b = Node(idx, {}, 2 if n != 2 else 4)
                try:                           # "a node used as a wire means its output 0" - whatever its known count (0 included)
                    w0 = a.out_port()
                    wire_ok = w0 == OutPort(a, 0) and w0.offset == 0
                except Exception:  # noqa: BLE001  (an exception of the implementation is an observation)
                    wire_ok = False
                facts = {
                    "wire_is_out0": wire_ok,
                    "outport_eq": OutPort(a, 1) == OutPort(b, 1) and hash(OutPort(a, 1)) == hash(OutPort(b, 1)),
                    "inport_eq": InPort(a, 1) == InPort(b, 1) and hash(InPort(a, 1)) == hash(InPort(b, 1)),
                    "offset_distinguishes": OutPort(a, 1) != OutPort(a, 2),
                    "node_distinguishes": OutPort(a, 1) != OutPort(Node(idx + 1), 1),
                    "node_eq": a == b and hash(a) == hash(b),
                    "dict_lookup": {OutPort(a, 0): 1}.get(OutPort(b, 0)) == 1,
                }
                for k, v in facts.items():
                    if not v:
                        ctx.violation({"mode": "identity", "fact": k}, {"n": n, "idx": idx}, True, False, clause=k)
    finally:
        cleanup(wd)
    # ---- handles returned by Hugr.add_node along add/delete histories (index reuse): HugrStore model, no links
    from . import c04
    wd = workdir("c16s")
    try:
        rp = c04.Replayer(ctx, (-1, 0), "C16")
        res = run_tlc("MC_HugrStore", c04.cfg(["a"], ["none"], "OffsetsTwo", 3 if quick else 5, 0, [1], False, 4 if quick else 5, "CountsAll" if quick else "CountsTwo", emit="state", laws=False,   # (thorough with CountsAll: 4.2e6 histories, 4 GB of output, 50 min; CountsTwo: 1.6e6)
                                                view=False),    # no VIEW: every add/delete history (the free list is hidden implementation state)
                      wd, workers=1, heap="4g", line_sink=lambda ln: rp.feed_path(ln) if isinstance(ln, dict) and "hist" in ln else None)
        tlc_must_hold(ctx, "S2C add/delete histories: handle counts", res, "HugrStore model (handles)")
        ctx.note("store_histories_replayed", rp.n)
    finally:
        cleanup(wd)
    # ---- part (b): handles returned by builders (shares the builder model)
    try:
        from . import builder_handles
    except ImportError:
        builder_handles = None
    if builder_handles is not None:
        builder_handles.run(ctx)
    # ---- part (b), exhaustive leg: every finished program of HugrBuilder.tla (dataflow, conditional, tail loop) replayed on the
    # real builders; every handle (leaf op, load, nested Dfg, Conditional, TailLoop) must report HugrBuilder!HandleCounts
    from . import builder_model
    wd = workdir("c16b")
    try:
        builder_model.run(ctx, wd, handles_only=True)
    finally:
        cleanup(wd)


def replay(path: str) -> int:
    body = json.load(open(path))
    c = body["case"]
    from . import builder_model
    if builder_model.replay_case(body):
        return 0
    if "mode" in c and c["mode"] in ("index", "slice"):
        for how, node in handles(c["n"]):
            print(how, observe(node, c["mode"], c["a"], c["b"], c["s"]), "expected", body["expected"])
    else:
        print(json.dumps(body, indent=1)[:3000])
    return 0
