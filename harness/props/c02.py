"""C02 — JSON round trip of a HUGR is lossless and a fixed point (spec: HugrSerial.tla over HugrStore states)."""
from __future__ import annotations

import json

from ..common import Ctx
from . import c04, serial_leg


def run(ctx: Ctx) -> None:
    quick = ctx.tier == "quick"
    ctx.rule = ("leg M: TLC checks RoundTripLaws (SameUpToRenumbering(s, Load(Serialize(s))), Serialize.Load.Serialize = Serialize, ...) on "
                "every reachable store state within the bounds. S->C: for a sample of those states the history is replayed on a real Hugr; "
                "to_json must equal HugrSerial!Serialize up to the canonical relabelling (exactly, when nothing was deleted), "
                "load_json(to_json) must re-serialize to the same JSON value and show the same ops / hierarchy with child order / metadata / "
                "bag of links per port incl. order links. Plus random mutation histories (deletion, index reuse, insertion) and the builder "
                "catalogue. non-trivial = history with a deletion or >= 2 links.")
    ctx.assumptions = ["HUGRs whose links attach only to ports their operations have (an offset equal to the order offset is an order edge on the wire)",
                       "operation attributes are covered per operation term by C05's document-level leg"]
    serial_leg.run_store_states(ctx, "C02", quick)
    serial_leg.run_random_histories(ctx, "C02", quick)
    serial_leg.run_catalog(ctx, "C02")
    try:
        from . import builder_docs
    except ImportError:
        builder_docs = None
    if builder_docs is not None:
        builder_docs.run(ctx, "C02")


replay = c04.replay
