"""Shared S->C leg over MC_Ops: operation terms (serves C05 'codec' and C06 'typing')."""
from __future__ import annotations

import json

from .. import wire as W
from ..common import REPO, Ctx, tlc_must_hold
from ..tlc import MachineryError, cleanup, run_tlc, workdir
from .terms_types import tla_bspec


def std_consts() -> str:
    d = REPO / "specification" / "std_extensions"

    def b(path, n):
        return tla_bspec(json.loads((d / path).read_text())["types"][n]["bound"])
    ops_ = json.loads((d / "prelude.json").read_text())["operations"]

    def q(x):
        return json.dumps(x, ensure_ascii=False)
    desc = "[" + ", ".join(f"{n} |-> {q(ops_[n]['description'])}" for n in ("MakeTuple", "UnpackTuple", "Noop")) + "]"
    return (f"StdPreludeDesc == {desc}\n" f"StdInt == {b('arithmetic/int/types.json', 'int')}\nStdFloat == {b('arithmetic/float/types.json', 'float64')}\n"
            f"StdString == {b('prelude.json', 'string')}\nStdArr == {b('collections/array.json', 'array')}\n"
            f"StdLst == {b('collections/list.json', 'List')}\nStdSArr == {b('collections/static_array.json', 'static_array')}\n")


STD_CFG = ("CONSTANT IntBSpec <- StdInt\nCONSTANT FloatBSpec <- StdFloat\nCONSTANT StringBSpec <- StdString\n"
           "CONSTANT ArrBSpec <- StdArr\nCONSTANT LstBSpec <- StdLst\nCONSTANT SArrBSpec <- StdSArr\nCONSTANT PreludeDesc <- StdPreludeDesc\n")


def root_module(wd, base: str) -> str:
    name = f"{base}_run"
    (wd / f"{name}.tla").write_text(f"---- MODULE {name} ----\nEXTENDS {base}\n{std_consts()}====\n")
    return name


def run_ops(ctx: Ctx, what: str) -> None:
    from hugr.hugr import Hugr
    from hugr.hugr.node_port import InPort, Node, OutPort
    wd = workdir(f"ops-{what}")
    try:
        root = root_module(wd, "MC_Ops")
        cfg = "INIT Init\nNEXT Next\n" + STD_CFG + "INVARIANT Laws\nINVARIANT Emit\nCHECK_DEADLOCK FALSE\n"
        n = [0]

        def sink(ln):
            if not isinstance(ln, dict) or "enc" not in ln:
                return
            n[0] += 1
            ctx.evaluations += 1
            o = W.from_tla(ln["o"])
            enc = W.from_tla(ln["enc"])
            sig = {"op": o["op"]}
            if len(json.dumps(o)) > 120:
                ctx.nontriv(o)
            if o["op"] in ("TailLoop", "Call") and len(ctx.samples) < 3 and len(json.dumps(o)) > 300:
                ctx.sample({"op": o, "dfsig": ln["dfsig"], "kinds_in": ln["kinds_in"], "numout": ln["numout"]})
            try:
                objs = []
                if ln["sugar"]:
                    objs.append(("built", W.build_sugar_op(o)))
                objs.append(("decoded", W.dec_op(enc)))
                if what == "typing":
                    inferred = W.infer_partial_op(o, objs[-1][1])
                    if inferred is not None:
                        objs.append(("inferred by the builder", inferred))
                    via = W.call_through_builders(o, objs[0][1])
                    if via is not None:
                        objs.append(("callee made by define_function, then call / load_function", via))
                if what == "typing" and o["op"] == "Conditional":
                    _cases_of_builder(ctx, sig, ln, o)
                if what == "codec":
                    _codec(ctx, sig, ln, o, enc, objs)
                else:
                    for how, obj in objs:
                        if _typing(ctx, dict(sig, how=how), ln, enc, obj, Hugr, Node, InPort, OutPort):
                            break
            except MachineryError:
                raise
            except Exception as e:  # noqa: BLE001
                ctx.violation(dict(sig, what=f"exception {type(e).__name__}"), ln, "no exception", repr(e)[:300], clause="implementation raised")
        res = run_tlc(root, cfg, wd, workers=1, line_sink=sink, heap="6g", timeout=3000)
        tlc_must_hold(ctx, "M+S2C operation terms", res, "HugrWire operation laws")
        if n[0] < 1000:
            raise MachineryError(f"only {n[0]} op terms emitted")
        ctx.exhaustive = True
    finally:
        cleanup(wd)


def _codec(ctx, sig, ln, o, enc, objs):
    for how, obj in objs:
        e = W.enc_op(obj)
        if W.canon(W.strip_hugr(e)) != W.canon(W.strip_hugr(enc)):
            ctx.violation(dict(sig, what=f"encode ({how})"), ln, enc, e, clause="Enc(x) = EncOp(x)")
            return
    back = objs[-1][1]
    # the same through the document-level entry points Hugr.to_json / Hugr.load_json
    from hugr.hugr import Hugr
    h = Hugr()
    h.add_node(back, h.root)
    doc = json.loads(h.to_json())
    node = dict(doc["nodes"][1])
    node.pop("parent", None)
    if W.canon(W.strip_hugr(node)) != W.canon(W.strip_hugr(enc)):
        ctx.violation(dict(sig, what="encode via Hugr.to_json"), ln, enc, node, clause="Enc(x) = EncOp(x) (document level)")
        return
    doc2 = json.loads(Hugr.load_json(h.to_json()).to_json())
    if W.canon(doc2["nodes"]) != W.canon(doc["nodes"]):
        ctx.violation(dict(sig, what="Hugr.load_json(to_json) re-encode"), ln, doc["nodes"][1], doc2["nodes"][1] if len(doc2["nodes"]) > 1 else None,
                      clause="Enc(Dec(Enc(x))) = Enc(x) (document level)")
        return
    pb = W.proj_op(back)
    if W.canon(W.strip_hugr(pb)) != W.canon(W.strip_hugr(enc)):
        ctx.violation(dict(sig, what="decode attributes"), ln, enc, pb, clause="Dec(Enc(x)) attribute by attribute")
        return
    if ln["sugar"]:
        built = objs[0][1]
        from hugr import ops
        if isinstance(built, ops.Tag):
            gen = ops.Tag(built.tag, back.sum_ty)
            same = (built.tag == back.tag and built.sum_ty == back.sum_ty and built.outer_signature() == gen.outer_signature()
                    and built.num_out == gen.num_out)
            if not same:
                ctx.violation(dict(sig, what="sugar tag = general Tag"), ln, "same tag, sum type, signature", "differs", clause="Sugar tag ops")
                return
        if built.num_out != back.num_out or not _sig_eq(built.outer_signature(), back.outer_signature()):
            ctx.violation(dict(sig, what="derived facts after decode"), ln, "same signature/num_out", "differs", clause="DfSig/NumOut invariant under Dec.Enc")


def _sig_eq(a, b) -> bool:
    return (W.same_t([W.proj_type(t) for t in a.input], [W.proj_type(t) for t in b.input])
            and W.same_t([W.proj_type(t) for t in a.output], [W.proj_type(t) for t in b.output]))


def _typing(ctx, sig, ln, enc, obj, Hugr, Node, InPort, OutPort) -> bool:
    """returns True if a violation was recorded"""
    from hugr import ops
    nd = Node(0)

    def bad(what, exp, obs, clause):
        ctx.violation(dict(sig, what=what), ln, exp, obs, clause=clause)
        return True
    # output count
    if obj.num_out != ln["numout"]:
        return bad("num_out", ln["numout"], obj.num_out, "HugrWire!NumOut")
    # outer signature
    if ln["isdf"] and hasattr(obj, "outer_signature"):
        s = obj.outer_signature()
        got = [[W.proj_type(t) for t in s.input], [W.proj_type(t) for t in s.output]]
        if not W.same_t(got, W.from_tla(ln["dfsig"])):
            return bad("outer_signature", ln["dfsig"], got, "HugrWire!DfSig")
    if ln["hasinner"]:
        s = obj.inner_signature()
        got = [[W.proj_type(t) for t in s.input], [W.proj_type(t) for t in s.output]]
        if not W.same_t(got, W.from_tla(ln["inner"])):
            return bad("inner_signature", ln["inner"], got, "HugrWire!InnerSig")
    if enc["op"] == "DFG":          # "a DFG's outer signature equals its body's": the extension requirements included
        want = set(enc["signature"].get("runtime_reqs", []))
        got = [sorted(obj.outer_signature().runtime_reqs), sorted(obj.inner_signature().runtime_reqs)]
        if set(got[0]) != want or set(got[1]) != want:
            return bad("requirements of the outer / inner signature", sorted(want), got, "DfSig(DFG) = InnerSig(DFG) = signature")
    if enc["op"] == "Conditional":
        got = [[W.proj_type(t) for t in obj.nth_inputs(i)] for i in range(len(ln["case_inputs"]))]
        if not W.same_t(got, W.from_tla(ln["case_inputs"])):
            return bad("nth_inputs", ln["case_inputs"], got, "HugrWire!CaseInputs")
    if enc["op"] == "DataflowBlock":
        got = [[W.proj_type(t) for t in obj.nth_outputs(i)] for i in range(len(ln["succ_outputs"]))]
        if not W.same_t(got, W.from_tla(ln["succ_outputs"])):
            return bad("nth_outputs", ln["succ_outputs"], got, "HugrWire!SuccOutputs")
    if isinstance(obj, ops.Call) and obj._function_port_offset() != ln["nval_in"]:
        return bad("function port offset", ln["nval_in"], obj._function_port_offset(), "HugrWire!FuncPortOffset")
    # port kinds: every port that exists, both directions, plus the order port (-1 in the API)
    h = Hugr()
    hn = h.add_node(obj)
    for d, P, kinds, order in (("in", InPort, ln["kinds_in"], ln["order_in"]), ("out", OutPort, ln["kinds_out"], ln["order_out"])):
        nval = ln["nval_in"] if d == "in" else ln["nval_out"]
        nstatic = 1 if (ln["static_in"] if d == "in" else ln["static_out"]) != "none" else 0
        queries = [(off, W.from_tla(kinds[off])) for off in range(nval + nstatic)]
        if order:
            queries.append((-1, ["Order"]))
        if enc["op"] in ("DataflowBlock", "ExitBlock"):
            queries = [(off, ["CF"]) for off in range(len(kinds))]
        for off, exp in queries:
            for where, fn in (("op", lambda p: obj.port_kind(p)), ("hugr", lambda p: h.port_kind(p))):
                port = P(nd if where == "op" else hn, off)
                try:
                    k = W.kind_json(fn(port))
                except Exception as e:  # noqa: BLE001
                    return bad(f"port_kind({d},{off}) via {where} raised {type(e).__name__}", exp, repr(e)[:200], "HugrWire!PortKind")
                e2 = list(exp)
                if e2[0] in ("Const", "Function") and len(e2) == 1:
                    e2.append(W.from_tla(ln["static_type"]))
                if k[0] != e2[0] or (len(e2) > 1 and not W.same_t(k[1], e2[1])):
                    return bad(f"port_kind({d},{off}) via {where}", e2, k, "HugrWire!PortKind")
            # the type reported for a value port equals the payload of its kind
            if exp[0] == "Value":
                for where, fn in (("op", getattr(obj, "port_type", None)), ("hugr", h.port_type)):
                    if fn is None:
                        continue
                    port = P(nd if where == "op" else hn, off)
                    try:
                        t = fn(port)
                    except Exception as e:  # noqa: BLE001
                        return bad(f"port_type({d},{off}) via {where} raised {type(e).__name__}", exp[1], repr(e)[:200], "port type = kind payload")
                    if d == "in" and isinstance(obj, ops.Call) and where == "hugr":
                        continue   # Hugr.port_type documents Call outputs only
                    if t is None or not W.same_t(W.proj_type(t), exp[1]):
                        return bad(f"port_type({d},{off}) via {where}", exp[1], None if t is None else W.proj_type(t), "port type = kind payload")
    # history: the same queries on ONE long-lived Hugr in which the previous term's node was deleted and its index is reused
    hs = _SHARED_HUGR.setdefault("h", Hugr())
    hn2 = hs.add_node(obj)
    try:
        for off in range(ln["nval_out"]):
            exp = W.from_tla(ln["kinds_out"][off])
            if exp[0] != "Value":
                continue
            t = hs.port_type(OutPort(hn2, off))
            k = W.kind_json(hs.port_kind(OutPort(hn2, off)))
            if t is None or not W.same_t(W.proj_type(t), exp[1]) or k[0] != "Value" or not W.same_t(k[1], exp[1]):
                return bad(f"port_type / port_kind(out,{off}) on a node that reuses a freed index", exp[1], [None if t is None else W.proj_type(t), k],
                           "port type = kind payload (after delete_node / add_node)")
    finally:
        hs.delete_node(hn2)
    return False


_SHARED_HUGR: dict = {}


def _cases_of_builder(ctx, sig, ln, o) -> None:
    """C06: 'case i receives variant i followed by the other inputs' - also for the Case children the Conditional builder creates."""
    from hugr import ops, tys
    from hugr.build.cond_loop import Conditional
    rows = [W.build_row(r) for r in o["sum_rows"]]
    others = W.build_row(o["other_inputs"])
    c = Conditional(tys.Sum(rows), others)
    h = c.hugr
    kids = list(h.children(h.root))
    want = [[W.enc_type(t) for t in (*rows[i], *others)] for i in range(len(rows))]
    got = []
    for k in kids:
        op = h[k].op
        inp = [x for x in h.children(k) if isinstance(h[x].op, ops.Input)]
        got.append({"case": [W.enc_type(t) for t in op.inputs] if isinstance(op, ops.Case) else type(op).__name__,
                    "input node": [W.enc_type(t) for t in h[inp[0]].op.types] if inp else None})
    ok = len(got) == len(want) and all(isinstance(g["case"], list) and len(g["case"]) == len(w) and all(W.same_t(a, b) for a, b in zip(g["case"], w))
                                       and g["input node"] is not None and len(g["input node"]) == len(w) and all(W.same_t(a, b) for a, b in zip(g["input node"], w))
                                       for g, w in zip(got, want))
    if not ok:
        ctx.violation(dict(sig, how="Case children made by the Conditional builder", what="case inputs"), ln, want, got, clause="CaseInputs(op, i) = sum_rows[i] ++ other_inputs")
