"""C05 (b): loading and re-saving schema-valid documents not produced by this library (HugrSerial!ForeignWrite)."""
from __future__ import annotations

from ..common import Ctx
from . import serial_leg


def run(ctx: Ctx) -> None:
    serial_leg.run_store_states(ctx, "C05", ctx.tier == "quick")
    serial_leg.run_random_histories(ctx, "C05", ctx.tier == "quick")
