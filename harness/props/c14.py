"""C14 — constants inhabit the type they report (spec: HugrStd!InhabitsS / TypeOfS, MC_Vals)."""
from __future__ import annotations

import json

from ..common import Ctx
from .terms_vals import run_vals


def run(ctx: Ctx) -> None:
    quick = ctx.tier == "quick"
    ctx.rule = ("TLC enumerates value expressions built with the helper constructors (unit sums, tuples, Some/None/Left/Right, general "
                "sums, int widths 0..6, float, string, arrays / lists / static arrays of every element type, function values) up to "
                "nesting depth 2 (quick) / 3 and checks InhabitsS; each is built with the Python helpers and type_(), the serialized "
                "form, the defining extension, Const's static port and the LoadConstant produced by load() compared. "
                "non-trivial = nested value (>= 3 value constructors).")
    ctx.assumptions = ["general Sum values are generated well-typed (a wrong user-supplied type is outside the property)",
                       "float payloads are two tokens bound to 1.5 and -0.25"]
    run_vals(ctx, "type", depth=2 if quick else 3)


def replay(path: str) -> int:
    print(json.dumps(json.load(open(path)), indent=1)[:5000])
    return 0
