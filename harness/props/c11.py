"""C11 — extension resolution is conservative, idempotent and invisible on the wire (spec: HugrWire!Resolve, MC_Resolve)."""
from __future__ import annotations

import json

from .. import wire as W
from ..common import Ctx, tlc_must_hold
from ..tlc import MachineryError, cleanup, run_tlc, workdir


def shape(x):
    """specification term / projected object -> comparable shape: sums in general form, Ext vs Opaque marked"""
    if isinstance(x, list):
        return [shape(i) for i in x]
    if not isinstance(x, dict):
        return x
    t = x.get("t")
    if t in ("Tuple",):
        return {"t": "Sum", "rows": [shape(x["elems"])]}
    if t == "Option":
        return {"t": "Sum", "rows": [[], shape(x["elems"])]}
    if t == "Either":
        return {"t": "Sum", "rows": [shape(x["left"]), shape(x["right"])]}
    if t == "Sum":
        return {"t": "Sum", "rows": [[] for _ in range(x["size"])] if x.get("s") == "Unit" else shape(x["rows"])}
    if t in ("Ext", "ExtType"):
        return {"t": "Ext", "extension": x["extension"], "id": x["id"], "args": shape(x["args"])}
    if t == "Opaque":
        return {"t": "Opaque", "extension": x["extension"], "id": x["id"], "args": shape(x["args"]), "bound": x["bound"]}
    if t == "G":
        return {"t": "G", "input": shape(x["input"]), "output": shape(x["output"])}
    return {k: shape(v) for k, v in x.items()}


def registry_for(reg, opdefs=(), mono=None):
    from hugr import ext, tys
    r = ext.ExtensionRegistry()
    exts = {}
    for d in reg:
        e = exts.get(d["ext"])
        if e is None:
            e = exts[d["ext"]] = ext.Extension(d["ext"], ext.Version(0, 1, 0))
        b = d["bspec"]
        bound = ext.ExplicitBound(W._bound(b["bound"])) if b["b"] == "Explicit" else ext.FromParamsBound(list(b["indices"]))
        nparams = (max(b["indices"]) + 1 if b["indices"] else 1) if b["b"] == "FromParams" else 0
        e.add_type_def(ext.TypeDef(d["id"], "", [tys.TypeTypeParam(tys.TypeBound.Any)] * nparams, bound))
    for en, on, desc in opdefs:
        e = exts.get(en)
        if e is None:
            e = exts[en] = ext.Extension(en, ext.Version(0, 1, 0))
        msig = (mono or {}).get((en, on))
        e.add_op_def(ext.OpDef(on, ext.OpDefSig(msig) if msig is not None else ext.OpDefSig(None, binary=True), description=desc))
    for e in exts.values():
        r.add_extension(e)
    return r


def run(ctx: Ctx) -> None:
    quick = ctx.tier == "quick"
    ctx.rule = ("TLC enumerates (type term, registry) pairs: opaque types at every depth (sum rows, function inputs/outputs, type arguments, "
                "sequence arguments, arguments of opaque types, to depth 3) x all 16 registries over 4 definitions in 2 extensions, checks "
                "idempotence, wire invisibility, bound preservation and exact replacement counts, and prints Resolve(t, reg); each pair is "
                "resolved against a real ExtensionRegistry and the result (which positions became definition-backed), its serialization, "
                "bound, model export and a second resolution compared. HUGR level: Custom ops in loaded HUGRs x registries. "
                "non-trivial = term with >= 2 opaque occurrences or a non-empty proper registry.")
    ctx.assumptions = ["declared bounds of opaque types agree with the registry's definitions (consistent documents)",
                       "an operation's description may be replaced by its definition's"]
    wd = workdir("c11")
    try:
        cfg = "INIT Init\nNEXT Next\nINVARIANT Laws\nINVARIANT Emit\nCHECK_DEADLOCK FALSE\n"
        n = [0]

        def sink(ln):
            if not isinstance(ln, dict) or "res" not in ln:
                return
            n[0] += 1
            if quick and n[0] % 3:
                return
            ctx.evaluations += 1
            t = W.from_tla(ln["t"])
            sig = {"t": t["t"], "nreg": len(ln["reg"])}
            if json.dumps(t).count("Opaque") >= 2 or 0 < len(ln["reg"]) < 4:
                ctx.nontriv([t, ln["reg"]])
            if len(ctx.samples) < 3 and json.dumps(t).count("Opaque") >= 3 and len(ln["reg"]) == 2:
                ctx.sample({"term": t, "registry": [(d["ext"], d["id"]) for d in ln["reg"]], "expected": shape(ln["res"])})
            try:
                obj = W.build_type(t)
                reg = registry_for(ln["reg"])
                r1 = obj.resolve(reg)
                got = shape(W.proj_type(r1))
                exp = shape(W.from_tla(ln["res"]))
                if W.canon(got) != W.canon(exp):
                    ctx.violation(dict(sig, what="which occurrences were replaced"), ln, exp, got, clause="HugrWire!Resolve")
                    return
                if W.canon(W.enc_type(r1)) != W.canon(W.from_tla(ln["enc"])) or W.canon(W.enc_type(obj)) != W.canon(W.from_tla(ln["enc"])):
                    ctx.violation(dict(sig, what="serialized form"), ln, ln["enc"], W.enc_type(r1), clause="Desugar(Resolve(t)) = Desugar(t)")
                    return
                if r1.type_bound().value != ln["bound"]:
                    ctx.violation(dict(sig, what="bound"), ln, ln["bound"], r1.type_bound().value, clause="Bound(Resolve(t)) = Bound(t)")
                    return
                r2 = r1.resolve(reg)
                if W.canon(shape(W.proj_type(r2))) != W.canon(got):
                    ctx.violation(dict(sig, what="idempotence"), ln, got, shape(W.proj_type(r2)), clause="Resolve(Resolve(t)) = Resolve(t)")
                    return
                if t["t"] != "R" and obj.to_model() != r1.to_model():
                    ctx.violation(dict(sig, what="model export"), ln, str(obj.to_model())[:200], str(r1.to_model())[:200], clause="Export(Resolve(t)) = Export(t)")
                    return
                # through type arguments as well
                ta = obj.type_arg().resolve(reg)
                if W.canon(shape(W.proj_arg(ta)["ty"])) != W.canon(exp):
                    ctx.violation(dict(sig, what="TypeTypeArg.resolve"), ln, exp, shape(W.proj_arg(ta)["ty"]), clause="HugrWire!ResolveArg")
            except MachineryError:
                raise
            except Exception as e:  # noqa: BLE001
                ctx.violation(dict(sig, what=f"exception {type(e).__name__}"), ln, "no exception", repr(e)[:300], clause="implementation raised")
        res = run_tlc("MC_Resolve", cfg, wd, workers=1, line_sink=sink, heap="6g", timeout=3000)
        tlc_must_hold(ctx, "M+S2C (term, registry) pairs", res, "HugrWire!Resolve laws")
        ctx.exhaustive = not quick
        if n[0] < 1000:
            raise MachineryError(f"only {n[0]} pairs emitted")
        _hugr_level(ctx)
        _twin_extensions(ctx)
        _containers(ctx)
        _registry_histories(ctx, wd, quick)
    finally:
        cleanup(wd)


def _registry_histories(ctx: Ctx, wd, quick: bool) -> None:
    """all histories (no state collapsing: a registry may cache) of adding definitions to ONE registry and resolving in between"""
    from hugr import ext, tys
    cfg = f"INIT Init\nNEXT Next\nCONSTANT MaxLen = {4 if quick else 5}\nPROPERTY Law\nACTION_CONSTRAINT Emit\nCHECK_DEADLOCK FALSE\n"
    n = [0]

    def sink(ln):
        if not isinstance(ln, dict) or "hist" not in ln:
            return
        n[0] += 1
        if quick and n[0] % 2:
            return
        ctx.evaluations += 1
        hist = ln["hist"]
        if any(e["a"] == "AddDef" for e in hist[:-1]) and sum(e["a"] == "Resolve" for e in hist) >= 2:
            ctx.nontriv(hist)
        reg = ext.ExtensionRegistry()
        exts = {}
        got = None
        try:
            for e in hist:
                if e["a"] == "AddDef":
                    b = e["bspec"]
                    bound = ext.ExplicitBound(W._bound(b["bound"])) if b["b"] == "Explicit" else ext.FromParamsBound(list(b["indices"]))
                    td = ext.TypeDef(e["id"], "", [tys.TypeTypeParam(tys.TypeBound.Any)] if b["b"] == "FromParams" else [], bound)
                    if e["ext"] in exts:
                        exts[e["ext"]].add_type_def(td)              # the extension is already registered
                    else:
                        x = exts[e["ext"]] = ext.Extension(e["ext"], ext.Version(0, 1, 0))
                        x.add_type_def(td)
                        reg.add_extension(x)
                else:
                    got = W.build_type(W.from_tla(e["t"])).resolve(reg)
            exp = shape(W.from_tla(ln["res"]))
            obs = shape(W.proj_type(got))
            if W.canon(exp) != W.canon(obs):
                ctx.violation({"t": "history", "what": "resolution after the registry changed", "nreg": sum(e["a"] == "AddDef" for e in hist)},
                              {"hist": hist}, exp, obs, clause="RegistryHist!ResolveT = Resolve(t, current registry)")
        except MachineryError:
            raise
        except Exception as ex:  # noqa: BLE001
            ctx.violation({"t": "history", "what": f"exception {type(ex).__name__}"}, {"hist": hist}, "no exception", repr(ex)[:300], clause="implementation raised")
    res = run_tlc("RegistryHist", cfg, wd, workers=1, line_sink=sink, heap="4g", timeout=1500)
    tlc_must_hold(ctx, "M+S2C registry histories", res, "RegistryHist")
    if n[0] < 200:
        raise MachineryError(f"only {n[0]} registry histories emitted")


def _hugr_level(ctx: Ctx) -> None:
    """Custom ops of loaded HUGRs x registries (Hugr.resolve_extensions)."""
    import itertools

    from hugr import ops, tys
    from hugr.build.function import Module
    from hugr.hugr import Hugr
    lin = tys.Opaque("Lin", tys.TypeBound.Any, [], "e1")
    pa = tys.Opaque("P", tys.TypeBound.Any, [lin.type_arg()], "e1")
    for with_types, with_op_e1, with_op_e3, mono_sig in itertools.product([False, True], repeat=4):
        if mono_sig and not with_op_e1:
            continue
        ctx.evaluations += 1
        ctx.nontriv(f"hugr:{with_types}:{with_op_e1}:{with_op_e3}")
        m = Module()
        f = m.define_function("f", [lin, tys.Bool])
        a = f.add_op(ops.Custom("opn", tys.FunctionType([lin], [pa]), "orig desc", "e1", [pa.type_arg(), tys.SequenceArg([lin.type_arg()])]), f.inputs()[0])
        b = f.add_op(ops.Custom("other", tys.FunctionType([tys.Bool], [tys.Bool]), "keep me", "e3", []), f.inputs()[1])
        f.set_outputs(a, b)
        h0 = Hugr.load_json(m.hugr.to_json())                     # "all HUGRs loaded from serialized form"
        doc0 = json.loads(h0.to_json())
        model0 = h0.to_model()
        reg = registry_for(([{"ext": "e1", "id": "Lin", "bspec": {"b": "Explicit", "bound": "A"}},
                             {"ext": "e1", "id": "P", "bspec": {"b": "FromParams", "indices": [0]}}] if with_types else []),
                           ([("e1", "opn", "definition desc")] if with_op_e1 else []) + ([("e3", "unrelated", "x")] if with_op_e3 else []),
                           mono={("e1", "opn"): tys.FunctionType([lin], [pa])} if mono_sig else {})
        sig = {"t": "hugr", "nreg": int(with_types) + int(with_op_e1) + int(with_op_e3)}
        case = {"registry": {"types": with_types, "e1.opn": with_op_e1, "e3.unrelated": with_op_e3, "opn has a monomorphic signature": mono_sig}}
        try:
            h0.resolve_extensions(reg)
            kinds = [type(h0[n].op).__name__ for n in h0 if isinstance(h0[n].op, (ops.Custom, ops.ExtOp))]
            want = ["ExtOp" if with_op_e1 else "Custom", "Custom"]
            if kinds != want:
                ctx.violation(dict(sig, what="which operations were replaced"), case, want, kinds, clause="Custom replaced iff its definition is in the registry")
                continue
            opn = next(h0[n].op for n in h0 if isinstance(h0[n].op, (ops.Custom, ops.ExtOp)))
            if with_op_e1:
                tshape = shape(W.proj_type(opn.signature.input[0]))
                if (tshape["t"] == "Ext") != with_types:
                    ctx.violation(dict(sig, what="signature types of the resolved op"), case, "Ext" if with_types else "Opaque", tshape["t"], clause="signature resolved with the op")
                    continue
                ashape = shape(W.proj_arg(opn.args[1])["elems"][0]["ty"])
                if (ashape["t"] == "Ext") != with_types:
                    ctx.violation(dict(sig, what="type arguments of the resolved op"), case, "Ext" if with_types else "Opaque", ashape["t"], clause="args resolved with the op")
                    continue
            doc1 = json.loads(h0.to_json())

            def strip_desc(d):
                d = json.loads(json.dumps(d))
                for nd in d["nodes"]:
                    if nd.get("op") == "Extension" and nd.get("extension") == "e1" and with_op_e1:
                        if nd.get("description") not in ("orig desc", "definition desc"):
                            return None
                        nd["description"] = ""
                return d
            s0, s1 = strip_desc(doc0), strip_desc(doc1)
            if s1 is None or W.canon(s0) != W.canon(s1):
                ctx.violation(dict(sig, what="serialized document"), case, "unchanged (except the op description)", "changed", clause="Enc(Resolve(h)) = Enc(h)")
                continue
            if h0.to_model() != model0:
                ctx.violation(dict(sig, what="exported model"), case, "unchanged", "changed", clause="Export(Resolve(h)) = Export(h)")
                continue
            h0.resolve_extensions(reg)
            if W.canon(json.loads(h0.to_json())) != W.canon(doc1):
                ctx.violation(dict(sig, what="idempotence"), case, "unchanged", "changed", clause="resolving twice = once")
        except Exception as e:  # noqa: BLE001
            ctx.violation(dict(sig, what=f"exception {type(e).__name__}"), case, "no exception", repr(e)[:300], clause="implementation raised")


def _twin_extensions(ctx: Ctx) -> None:
    """Two nodes of the same generic operation whose type arguments differ only in the extension of a same-named type
    (e1.Cell / e2.Cell, also nested as P<Cell> and fn(Cell -> Cell)): each node keeps its own signature and arguments under every registry."""
    import itertools

    from hugr import ops, tys
    from hugr.build.function import Module
    from hugr.hugr import Hugr
    c1 = tys.Opaque("Cell", tys.TypeBound.Any, [], "e1")
    c2 = tys.Opaque("Cell", tys.TypeBound.Any, [], "e2")
    for nest, with_op, types_e1, types_e2 in itertools.product(["plain", "P", "fn"], [False, True], [False, True], [False, True]):
        ctx.evaluations += 1
        ctx.nontriv(f"twin:{nest}:{with_op}:{types_e1}:{types_e2}")

        def wrap(c):
            if nest == "plain":
                return c
            if nest == "P":
                return tys.Opaque("P", tys.TypeBound.Any, [c.type_arg()], "e1")
            return tys.FunctionType([c], [c])
        t1, t2 = wrap(c1), wrap(c2)
        m = Module()
        f = m.define_function("f", [t1, t2])
        a = f.add_op(ops.Custom("generic", tys.FunctionType([t1], [t1]), "d", "e1", [t1.type_arg()]), f.inputs()[0])
        b = f.add_op(ops.Custom("generic", tys.FunctionType([t2], [t2]), "d", "e1", [t2.type_arg()]), f.inputs()[1])
        f.set_outputs(a, b)
        h0 = Hugr.load_json(m.hugr.to_json())
        doc0 = json.loads(h0.to_json())
        model0 = h0.to_model()
        tdefs = ([{"ext": "e1", "id": "Cell", "bspec": {"b": "Explicit", "bound": "A"}}, {"ext": "e1", "id": "P", "bspec": {"b": "FromParams", "indices": [0]}}] if types_e1 else []) \
            + ([{"ext": "e2", "id": "Cell", "bspec": {"b": "Explicit", "bound": "A"}}] if types_e2 else [])
        reg = registry_for(tdefs, [("e1", "generic", "d")] if with_op else [])
        sig = {"t": "twin", "nest": nest}
        case = {"registry": {"e1.generic": with_op, "e1 types": types_e1, "e2 types": types_e2}, "type arguments": nest}
        try:
            h0.resolve_extensions(reg)
            kinds = [type(h0[n].op).__name__ for n in h0 if isinstance(h0[n].op, (ops.Custom, ops.ExtOp))]
            want = ["ExtOp" if with_op else "Custom"] * 2
            if kinds != want:
                ctx.violation(dict(sig, what="which operations were replaced"), case, want, kinds, clause="Custom replaced iff its definition is in the registry")
                continue
            doc1 = json.loads(h0.to_json())

            def strip(d):
                d = json.loads(json.dumps(d))
                for nd in d["nodes"]:
                    if nd.get("op") == "Extension":
                        nd["description"] = ""
                return d
            if W.canon(strip(doc0)) != W.canon(strip(doc1)):
                ctx.violation(dict(sig, what="serialized document"), case, "unchanged (except the op description)", "changed", clause="Enc(Resolve(h)) = Enc(h)")
                continue
            if h0.to_model() != model0:
                ctx.violation(dict(sig, what="exported model"), case, "unchanged", "changed", clause="Export(Resolve(h)) = Export(h)")
                continue
            h0.resolve_extensions(reg)
            if W.canon(json.loads(h0.to_json())) != W.canon(doc1):
                ctx.violation(dict(sig, what="idempotence"), case, "unchanged", "changed", clause="resolving twice = once")
        except Exception as e:  # noqa: BLE001
            ctx.violation(dict(sig, what=f"exception {type(e).__name__}"), case, "no exception", repr(e)[:300], clause="implementation raised")


def _containers(ctx: Ctx) -> None:
    """An opaque operation at every place of the hierarchy (function body, nested DFG, tail loop, both cases of a conditional, a case of a
    conditional nested in a CFG block, a CFG block, a loop inside a case): resolution reaches every node of the HUGR."""
    from hugr import ops, tys
    from hugr.build.function import Module
    from hugr.hugr import Hugr

    def opq():
        return ops.Custom("opn", tys.FunctionType([tys.Bool], [tys.Bool]), "d", "e1", [])
    m = Module()
    f = m.define_function("f", [tys.Bool])
    (b,) = f.inputs()
    places = ["function body", "nested dfg", "tail loop", "case 0", "case 1", "cfg block", "case inside a cfg block", "loop inside a case"]
    x = f.add_op(opq(), b)
    d = f.add_nested(x)
    d.set_outputs(d.add_op(opq(), d.inputs()[0]))
    tl = f.add_tail_loop([], [d.parent_node[0]])
    y = tl.add_op(opq(), tl.inputs()[0])
    tl.set_loop_outputs(y, y)
    cond = f.add_conditional(tl.parent_node[0], tl.parent_node[0])
    for i in (0, 1):
        c = cond.add_case(i)
        c.set_outputs(c.add_op(opq(), c.inputs()[0]))
    cfg = f.add_cfg(cond.parent_node[0])
    e = cfg.add_entry()
    z = e.add_op(opq(), e.inputs()[0])
    c2 = e.add_conditional(z, z)
    for i in (0, 1):
        c = c2.add_case(i)
        if i == 0:
            c.set_outputs(c.add_op(opq(), c.inputs()[0]))
        else:
            l2 = c.add_tail_loop([], [c.inputs()[0]])
            w = l2.add_op(opq(), l2.inputs()[0])
            l2.set_loop_outputs(w, w)
            c.set_outputs(l2.parent_node[0])
    e.set_single_succ_outputs(c2.parent_node[0])
    cfg.branch_exit(e[0])
    f.set_outputs(cfg.parent_node[0])
    doc = m.hugr.to_json()
    nops = sum(1 for nd in json.loads(doc)["nodes"] if nd.get("op") == "Extension")
    if nops != len(places):
        raise MachineryError(f"container HUGR has {nops} opaque ops, expected {len(places)}")
    for with_op, holes in ((False, False), (True, False), (True, True)):
        ctx.evaluations += 1
        ctx.nontriv(f"containers:{with_op}:{holes}")
        h0 = Hugr.load_json(doc)
        if holes:            # an edit history: leaf nodes deleted after loading, their indices stay free
            for _ in range(5):
                first = next(n for n in h0 if isinstance(h0[n].op, ops.Custom) and not h0.children(n))
                h0.delete_node(first)
            places = places[5:]
        reg = registry_for([], [("e1", "opn", "d")] if with_op else [])
        try:
            h0.resolve_extensions(reg)
            kinds = [type(h0[n].op).__name__ for n in h0 if isinstance(h0[n].op, (ops.Custom, ops.ExtOp))]
            want = ["ExtOp" if with_op else "Custom"] * len(places)
            if kinds != want:
                ctx.violation({"t": "containers", "what": "which operations were replaced"}, {"registry has e1.opn": with_op, "places": places}, want, kinds,
                              clause="Custom replaced iff its definition is in the registry (every node of the HUGR)")
        except Exception as e:  # noqa: BLE001
            ctx.violation({"t": "containers", "what": f"exception {type(e).__name__}"}, {"registry has e1.opn": with_op}, "no exception", repr(e)[:300], clause="implementation raised")


def replay(path: str) -> int:
    print(json.dumps(json.load(open(path)), indent=1)[:4000])
    return 0
