"""C01 — builder-constructed HUGRs satisfy the specification's validity rules (spec: HugrValidity.tla on raw wire documents)."""
from __future__ import annotations

import copy
import json
from collections import Counter

from ..common import Ctx
from ..docs import capture_repo_tests, judge
from ..tlc import MachineryError, cleanup, workdir

BUILDER_CLAUSES = {"IndexSane", "ChildrenOK", "EdgesOK", "RootNoEdges", "LocalityOK", "CfgEdgesOK", "ConstsOK"}


def corruptions(doc):
    """(name, corrupted doc, clause that must fail) — demonstrates that the TLA+ validity predicate is not vacuous."""
    out = []
    nodes, edges = doc["nodes"], doc["edges"]

    def order_edges():
        from .. import wire as W  # noqa: F401
        res = []
        for k, e in enumerate(edges):
            so = nodes[e[0][0]]
            if so["op"] in ("Input", "Extension", "DFG", "LoadConstant", "Tag", "Call", "CFG", "Conditional", "TailLoop"):
                res.append(k)
        return res
    # 1. drop an edge into a value input
    for k, e in enumerate(edges):
        if nodes[e[1][0]]["op"] == "Output" and nodes[e[0][0]]["op"] != "DataflowBlock":
            d = copy.deepcopy(doc)
            del d["edges"][k]
            out.append(("drop-output-edge", d, "User.InputsConnected"))
            break
    # 2. swap the Input and Output children of the first dataflow container
    for i, n in enumerate(nodes):
        if n["op"] == "Input" and i + 1 < len(nodes) and nodes[i + 1]["op"] == "Output" and nodes[i + 1]["parent"] == n["parent"]:
            d = copy.deepcopy(doc)
            d["nodes"][i], d["nodes"][i + 1] = d["nodes"][i + 1], d["nodes"][i]
            for e in d["edges"]:
                for end in e:
                    end[0] = i + 1 if end[0] == i else (i if end[0] == i + 1 else end[0])
            out.append(("swap-io", d, "ChildrenOK"))
            break
    # 3. change the type of an Output row entry
    for i, n in enumerate(nodes):
        if n["op"] == "Output" and n["types"]:
            d = copy.deepcopy(doc)
            t = d["nodes"][i]["types"][0]
            d["nodes"][i]["types"][0] = {"t": "I"} if t.get("t") != "I" else {"t": "Q"}
            out.append(("retype-output", d, "ChildrenOK"))
            break
    # 4. child listed before its parent
    if len(nodes) > 3:
        d = copy.deepcopy(doc)
        d["nodes"][1]["parent"] = len(nodes) - 1
        out.append(("parent-after-child", d, "IndexSane"))
    # 5. address an edge beyond the port count
    if edges:
        d = copy.deepcopy(doc)
        d["edges"][0][0][1] = 57
        out.append(("offset-out-of-range", d, "EdgesOK"))
    return out


def run(ctx: Ctx) -> None:
    from ..progen import generate
    quick = ctx.tier == "quick"
    ctx.rule = ("C->S: (i) every document the repository's own builder tests send to `hugr validate` (captured with a pytest plugin) and "
                "(ii) documents of seeded random well-formed builder programs (all entry points of C01, nesting depth <= 4, linear values, "
                "Ext and Dom wires, partially used multi-output ops, insert_* variants, tracked builders) are handed to TLC in raw wire form "
                "and judged by HugrValidity.tla: User(d) => Builder(d). Corrupted documents must be rejected on the expected clause "
                "(vacuity guard). non-trivial = program with a non-local wire or nested control flow; distinct = distinct document.")
    ctx.assumptions = ["extension-requirement inference and OpDef type-scheme instantiation are not modelled",
                       "the generator satisfies the premise (inputs wired once, linear values used once, Ext/Dom sources copyable and dominating) by construction",
                       "HugrValidity is calibrated against the documents upstream CI validates with the Rust validator"]
    wd = workdir("c01")
    try:
        # ---- (i) the repository's own builder programs
        cap, snaps, tail = capture_repo_tests(wd)
        docs = [(f"repo:{i}:{t}", d) for i, (t, k, d) in enumerate(cap)]
        v, res = judge(docs, wd, "repo")
        ctx.add_tlc("C2S repository test documents", res)
        ctx.traces += len(docs)
        for n, d in docs:
            ctx.evaluations += 1
            ctx.nontriv(n)
            if v[n]["failing"]:
                ctx.violation({"source": "repo-test", "clauses": "+".join(sorted(v[n]["failing"]))}, {"test": n, "document": d},
                              "Valid(d)", sorted(v[n]["failing"]), clause="HugrValidity!Valid", leg="C2S")
        if len(docs) < 30:
            raise MachineryError(f"only {len(docs)} documents captured from the repository's tests")
        ctx.note("repo_test_documents", len(docs))
        # ---- vacuity guard: corrupted documents must be rejected on the expected clause
        neg = []
        for n, d in docs[:12]:
            for cname, cd, clause in corruptions(d):
                neg.append((f"{n}|{cname}|{clause}", cd))
        vn, resn = judge(neg, wd, "neg")
        seen = Counter()
        for n, _ in neg:
            clause = n.rsplit("|", 1)[1]
            if clause not in vn[n]["failing"]:
                raise MachineryError(f"vacuity: corrupted document {n} not rejected on {clause}: {vn[n]['failing']}")
            seen[n.split("|")[1]] += 1
        if len(seen) < 4:
            raise MachineryError(f"vacuity guard exercised only {dict(seen)}")
        ctx.note("corrupted_documents_rejected", dict(seen))
        # ---- (ii) random well-formed programs
        nprog, size = (250, 30) if quick else (3000, 45)
        gen_docs, feats, calls = [], Counter(), Counter()
        for k in range(nprog):
            seed = ctx.seed * 100003 + k
            try:
                h, g = generate(seed, size)
                d = json.loads(h.to_json())
            except Exception as e:  # noqa: BLE001  (a builder call raised on a well-formed program, or serialization failed)
                ctx.violation({"source": "generated", "clauses": f"exception {type(e).__name__}"}, {"generator_seed": seed, "size": size},
                              "builders accept the program", repr(e)[:300], clause="no builder call raises", leg="C2S")
                continue
            gen_docs.append((f"gen:{seed}", d))
            for f in g.features:
                feats[f] += 1
            for c in set(g.calls):
                calls[c] += 1
            if {"nonlocal-wire", "dom-wire"} & g.features or {"cfg:diamond", "conditional", "tail-loop"} & g.features:
                ctx.nontriv(seed)
            if k < 2:
                ctx.sample({"generator_seed": seed, "entry_points": sorted(set(g.calls)), "features": sorted(g.features), "nodes": len(d["nodes"])})
        v2, res2 = judge(gen_docs, wd, "gen", timeout=3000)
        ctx.add_tlc("C2S generated programs", res2)
        ctx.traces += len(gen_docs)
        for n, d in gen_docs:
            ctx.evaluations += 1
            f = set(v2[n]["failing"])
            if f:
                kind = "builder" if f & BUILDER_CLAUSES else "premise"
                ctx.violation({"source": "generated", "clauses": "+".join(sorted(f)), "kind": kind}, {"generator_seed": int(n.split(":")[1]), "size": size, "document": d},
                              "User(d) => Builder(d)", sorted(f), clause="HugrValidity!" + sorted(f)[0], leg="C2S")
        ctx.note("features", dict(feats))
        ctx.note("entry_points", dict(calls))
        need = {"add_op", "add", "extend", "load", "call", "load_function", "add_nested", "insert_nested", "add_cfg", "insert_cfg", "add_conditional",
                "insert_conditional", "add_if", "add_else", "add_tail_loop", "insert_tail_loop", "define_function", "declare_function", "add_state_order", "set_outputs"}
        if need - set(calls):
            raise MachineryError(f"generator never used {sorted(need - set(calls))}")
        for f in ("nonlocal-wire", "dom-wire", "multi-output", "tracked", "row-poly-call"):
            if not feats[f]:
                raise MachineryError(f"generator never produced feature {f}")
        # ---- directed programs for situations the random generator avoids on purpose
        directed = []
        try:
            from hugr import tys
            from hugr.build.dfg import Dfg
            from hugr.std.logic import Not
            d = Dfg(tys.Bool)
            f = d.define_function("inner", [], parent=d.parent_node)         # a function definition nested in a dataflow region
            x = f.add_op(Not, d.inputs()[0])                                 # ... whose body takes a value from outside
            f.set_outputs(x)
            d.set_outputs()
            directed.append(("directed:value-wire-into-nested-funcdefn", json.loads(d.hugr.to_json())))
        except Exception:  # noqa: BLE001  (a refusal is what the property wants)
            pass
        # ... the same two or more levels below the function: inside a nested DFG, a conditional case, a tail loop of its body
        for where in ("nested", "case", "loop"):
            try:
                from hugr import tys
                from hugr.build.dfg import Dfg
                from hugr.std.logic import Not
                d = Dfg(tys.Bool)
                (outer,) = d.inputs()
                f = d.define_function("inner", [tys.Bool], parent=d.parent_node)
                (fb,) = f.inputs()
                if where == "nested":
                    n = f.add_nested()
                    n.set_outputs(n.add_op(Not, outer))
                    f.set_outputs(n.parent_node[0])
                elif where == "case":
                    c = f.add_conditional(fb)
                    for i in (0, 1):
                        k = c.add_case(i)
                        k.set_outputs(k.add_op(Not, outer))
                    f.set_outputs(c.parent_node[0])
                else:
                    tl = f.add_tail_loop([], [fb])
                    x = tl.add_op(Not, outer)
                    tl.set_loop_outputs(x, tl.inputs()[0])
                    f.set_outputs(tl.parent_node[0])
                d.set_outputs()
                directed.append((f"directed:value-wire-into-nested-funcdefn-{where}", json.loads(d.hugr.to_json())))
            except Exception:  # noqa: BLE001
                pass
        # constants built from one-shot iterators (the helper constructors take Iterables), loaded in a dataflow graph
        try:
            from hugr import tys, val
            from hugr.build.dfg import Dfg
            d = Dfg()
            outs = [d.load(val.Right(iter([tys.Bool]), iter([val.TRUE, val.FALSE]))), d.load(val.Left(iter([val.TRUE]), iter([tys.Qubit]))),
                    d.load(val.Sum(1, tys.Sum([[tys.Qubit], [tys.Bool, tys.Bool]]), iter([val.FALSE, val.TRUE]))), d.load(val.Some(val.TRUE)),
                    d.load(val.Tuple(val.Right(iter([]), iter([val.TRUE])), val.TRUE))]
            d.set_outputs(*outs)
            directed.append(("directed:constants-from-iterators", json.loads(d.hugr.to_json())))
        except Exception as e:  # noqa: BLE001
            ctx.violation({"source": "directed:constants-from-iterators", "clauses": f"exception {type(e).__name__}"}, {"program": "constants from iterators"},
                          "builders accept the program", repr(e)[:300], clause="no builder call raises", leg="C2S")
        if directed:
            v3, res3 = judge(directed, wd, "directed")
            for n, dd in directed:
                ctx.evaluations += 1
                f3 = set(v3[n]["failing"])
                if f3 & BUILDER_CLAUSES:
                    ctx.violation({"source": n, "clauses": "+".join(sorted(f3 & BUILDER_CLAUSES)), "kind": "builder"}, {"program": n, "document": dd},
                                  "the builder raises, or the document is valid", sorted(f3), clause="HugrValidity!" + sorted(f3 & BUILDER_CLAUSES)[0], leg="C2S")
        try:
            from . import builder_model
        except ImportError:
            builder_model = None
        if builder_model is not None:
            builder_model.run(ctx, wd)
    finally:
        cleanup(wd)


def replay(path: str) -> int:
    from ..progen import generate
    body = json.load(open(path))
    case = body["case"]
    from . import builder_model
    if builder_model.replay_case(body):
        return 0
    if "generator_seed" in case:
        h, g = generate(case["generator_seed"], case.get("size", 30))
        print("entry points:", sorted(set(g.calls)))
        print(h.to_json()[:2000])
    print("failing clauses:", body.get("observed"))
    return 0
