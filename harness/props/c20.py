"""C20 — rendering draws every node, port and link of the HUGR exactly once (spec: Render.tla on (HUGR projection, parsed DOT))."""
from __future__ import annotations

import json
import re

from ..common import Ctx
from ..tlc import MachineryError, cleanup, run_tlc, workdir

NODE_START = re.compile(r'^\s*"?(\d+)"? \[label=<\s*$')
NODE_END = re.compile(r'^\s*>\s*shape=plain\]\s*$')
EDGE = re.compile(r'^\s*"?(\d+)"?:"?((?:out)\.-?\d+)"? -> "?(\d+)"?:"?((?:in)\.-?\d+)"? \[(.*)\]\s*$')
SUB = re.compile(r'^\s*subgraph (?:cluster)?"?(?:cluster)?(\d+)"? \{\s*$')
LABEL_ATTR = re.compile(r'label=("(?:[^"\\]|\\.)*"|\S+)')


def parse_dot(src: str) -> dict:
    """A small reader for the DOT text the graphviz package emits (no `dot` binary needed)."""
    nodes, clusters, edges = [], [], []
    stack: list = []
    lines = src.splitlines()
    k = 0
    while k < len(lines):
        ln = lines[k]
        m = SUB.match(ln)
        if m:
            cid = int(m.group(1))
            clusters.append({"id": cid, "within": stack[-1] if stack else -1})
            stack.append(cid)
            k += 1
            continue
        if ln.strip() == "}":
            if stack:
                stack.pop()
            k += 1
            continue
        m = NODE_START.match(ln)
        if m:
            nid = int(m.group(1))
            body = []
            k += 1
            while k < len(lines) and not NODE_END.match(lines[k]):
                body.append(lines[k])
                k += 1
            html = "\n".join(body)
            lab = re.search(r"<B>(.*?)</B>", html, re.S)
            ports = re.findall(r'PORT="((?:in|out)\.-?\d+)"', html)
            nodes.append({"id": nid, "label": lab.group(1) if lab else "?", "ins": [p for p in ports if p.startswith("in.")],
                          "outs": [p for p in ports if p.startswith("out.")], "within": stack[-1] if stack else -1,
                          "meta_shown": "<BR/><BR/>" in html})
            k += 1
            continue
        m = EDGE.match(ln)
        if m:
            lab = LABEL_ATTR.search(m.group(5))
            lv = lab.group(1) if lab else ""
            if lv.startswith('"'):
                lv = bytes(lv[1:-1], "utf-8").decode("unicode_escape").encode("latin-1").decode("utf-8") if "\\" in lv else lv[1:-1]
            edges.append({"s": int(m.group(1)), "sp": m.group(2), "t": int(m.group(3)), "tp": m.group(4), "label": lv})
        k += 1
    return {"nodes": nodes, "clusters": clusters, "edges": edges}


def project(h, qualify: bool = False) -> dict:
    """The HUGR as its public queries show it, in Render.tla's vocabulary."""
    from hugr import ops, tys
    nodes = []
    for n in h:
        d = h[n]
        op = d.op
        name = op.op_def().name if (isinstance(op, ops.AsExtOp) and not qualify) else op.name()
        nodes.append({"idx": n.idx, "parent": d.parent.idx if d.parent is not None else n.idx, "nin": h.num_in_ports(n), "nout": h.num_out_ports(n),
                      "name": name, "haskids": len(h.children(n)) > 0})
    links = []
    for s, t in h.links():
        k = h.port_kind(s)
        links.append({"s": s.node.idx, "so": s.offset, "t": t.node.idx, "to": t.offset, "label": str(k.ty) if isinstance(k, tys.ValueKind) else ""})
    return {"nodes": nodes, "links": links}


def judge(pairs, wd, tag="r"):
    f = wd / f"{tag}.json"
    f.write_text(json.dumps(pairs))
    res = run_tlc("RenderCheck", "INIT Init\nNEXT Next\nINVARIANT Verdict\nCHECK_DEADLOCK FALSE\n", wd, workers=1, env={"DOCS_FILE": str(f)}, heap="6g", timeout=3000)
    if res.exit_code != 0:
        raise MachineryError(f"RenderCheck failed: exit {res.exit_code}\n{res.error_text}")
    out = {ln["name"]: ln for ln in res.lines if isinstance(ln, dict) and "failing" in ln}
    if len(out) != len(pairs):
        raise MachineryError(f"RenderCheck judged {len(out)} of {len(pairs)}")
    return out, res


def run(ctx: Ctx) -> None:
    from hugr.hugr.render import PALETTE, RenderConfig

    from .. import serial as S
    from ..catalog import modules
    from ..docs import capture_repo_tests
    from ..progen import generate
    quick = ctx.tier == "quick"
    ctx.rule = ("C->S: HUGRs from seeded random well-formed builder programs (order, constant, function and control-flow edges, metadata, "
                "nested containers), the catalogue and the repository's own snapshot tests are rendered with render_dot; the DOT source is "
                "parsed by a small reader and handed to TLC with the projection of the HUGR; Render.tla decides NodesOnce / ClustersMirror / "
                "EdgesOnce. The HUGR must be unchanged by rendering, and every palette x qualify_op_name configuration must give the same "
                "structure up to colours and the extension prefix. non-trivial = HUGR with an order edge, a static edge or a nested container.")
    ctx.assumptions = ["display names and type strings come from the same op.name() / str(type) the renderer uses: only their placement is checked",
                       "only the graphviz Python package is used (no dot binary)"]
    wd = workdir("c20")
    try:
        hugrs = [(f"cat:{n}", h) for n, h in modules()]
        n = 100 if quick else 1200
        for k in range(n):
            seed = ctx.seed * 30011 + k
            try:
                h, g = generate(seed, 25)
            except Exception:  # noqa: BLE001
                continue
            hugrs.append((f"gen:{seed}", h))
            ctx.nontriv(seed)
        # HUGRs after mutation histories (deleted nodes, re-used indices: child lists not in index order)
        import random as _random
        from ..store_adapter import ImplError, StoreAdapter
        rng = _random.Random(ctx.seed + 20)
        for k in range(40 if quick else 400):
            ad = StoreAdapter((-1, 0, 1))
            live, kids, par, nxt = [0], {0: 0}, {}, 1
            try:
                for _ in range(rng.randint(4, 14)):
                    r = rng.random()
                    cand = [x for x in live if x != 0 and kids[x] == 0]
                    if r < 0.6 or not cand:
                        p_ = rng.choice(live)
                        ad.apply({"a": "AddNode", "i": 1, "p": p_, "o": "a", "cnt": 2, "m": rng.choice(["none", "m"])})
                        live.append(nxt); kids[nxt] = 0; kids[p_] += 1; par[nxt] = p_; nxt += 1
                    else:
                        x = rng.choice(cand)
                        ad.apply({"a": "DeleteNode", "i": 1, "n": x})
                        live.remove(x); kids[par[x]] -= 1
                if len(live) >= 2 and rng.random() < 0.7:
                    a_, b_ = rng.sample(live[1:], 2) if len(live) >= 3 else (live[1], live[1])
                    ad.apply({"a": "AddLink", "i": 1, "sn": a_, "so": 0, "dn": b_, "do": 1})
                    ad.apply({"a": "AddOrderLink", "i": 1, "sn": a_, "dn": b_})
            except ImplError:
                continue
            hugrs.append((f"hist:{k}", ad.h[1]))
        # programs of the builder state machine (random walks of HugrBuilder.tla replayed on the real builders)
        from . import builder_model
        mh = builder_model.model_hugrs(wd, ctx.seed, 6 if quick else 60)
        for name, h, _hist in mh[: (60 if quick else 1200)]:
            hugrs.append((name, h))
        ctx.note("builder_model_programs_rendered", min(len(mh), 60 if quick else 1200))
        pairs = []
        from hugr.hugr.render import DotRenderer
        shared = DotRenderer()
        configs = [RenderConfig(palette=p, qualify_op_name=q) for p in PALETTE.values() for q in (False, True)]
        for name, h in hugrs:
            ctx.evaluations += 1
            before = S.structure(h)
            st = project(h)
            try:
                src = h.render_dot().source
            except Exception as e:  # noqa: BLE001
                ctx.violation({"check": f"render raised {type(e).__name__}"}, {"name": name}, "render_dot succeeds", repr(e)[:300], clause="Render", leg="C2S")
                continue
            g = parse_dot(src)
            if len(g["nodes"]) == 0:
                raise MachineryError("DOT reader found no node statements")
            # the same renderer object used again (second and later renders): if its drawing differs from a fresh renderer's,
            # it is judged by RenderCheck like any other drawing
            try:
                src2 = shared.render(h).source
            except Exception as e:  # noqa: BLE001
                ctx.violation({"check": f"reused renderer raised {type(e).__name__}"}, {"name": name}, "render succeeds", repr(e)[:300], clause="Render", leg="C2S")
                src2 = src
            if src2 != src:
                g2 = parse_dot(src2)
                pairs.append({"name": name + ":reused-renderer", "st": st,
                              "g": {"nodes": [{k2: v for k2, v in nd.items() if k2 != "meta_shown"} for nd in g2["nodes"]], "clusters": g2["clusters"], "edges": g2["edges"]}})
            pairs.append({"name": name, "st": st, "g": {"nodes": [{k2: v for k2, v in nd.items() if k2 != "meta_shown"} for nd in g["nodes"]],
                                                        "clusters": g["clusters"], "edges": g["edges"]}})
            if S.same_structure(before, S.structure(h)) or project(h) != st:
                ctx.violation({"check": "rendering modified the HUGR"}, {"name": name}, "unchanged", "changed", clause="Render leaves the store unchanged", leg="C2S")
            # configuration independence
            base = None
            for c in configs:
                gg = parse_dot(h.render_dot(c).source)
                key = (sorted((nd["id"], tuple(nd["ins"]), tuple(nd["outs"]), nd["within"]) for nd in gg["nodes"]),
                       sorted((c2["id"], c2["within"]) for c2 in gg["clusters"]),
                       sorted((e["s"], e["sp"], e["t"], e["tp"], e["label"]) for e in gg["edges"]))
                labels = {nd["id"]: nd["label"] for nd in gg["nodes"]}
                if base is None:
                    base, base_labels = key, labels
                else:
                    if key != base:
                        ctx.violation({"check": "configuration independence"}, {"name": name, "qualify": c.qualify_op_name}, "same structure", "differs",
                                      clause="independent of palette and name qualification", leg="C2S")
                        break
                    for i, lb in labels.items():
                        if not (lb == base_labels[i] or lb.endswith("." + base_labels[i]) or base_labels[i].endswith("." + lb)
                                or lb.split("<")[0].endswith(base_labels[i].split("<")[0])):
                            ctx.violation({"check": "configuration independence (labels)"}, {"name": name}, base_labels[i], lb,
                                          clause="only the extension prefix of operation names may differ", leg="C2S")
                            break
        v, res = judge(pairs, wd)
        ctx.add_tlc("C2S RenderCheck", res)
        ctx.traces += len(pairs)
        for p in pairs:
            f = v[p["name"]]["failing"]
            if f:
                case = {"name": p["name"]}
                if p["name"].startswith("gen:"):
                    case["generator_seed"] = int(p["name"].split(":")[1])
                ctx.violation({"check": "+".join(sorted(f))}, case, "DrawingFaithful", sorted(f), clause="Render!" + sorted(f)[0], leg="C2S")
        if pairs:
            ctx.sample({"name": pairs[-1]["name"], "nodes": len(pairs[-1]["st"]["nodes"]), "links": len(pairs[-1]["st"]["links"]),
                        "clusters": len(pairs[-1]["g"]["clusters"])})
        # the repository's own snapshot programs: our reading of the drawing must hold for the DOT upstream pinned
        cap, snaps, _ = capture_repo_tests(wd)
        ctx.note("repo_snapshot_renderings_seen", len(snaps))
        # vacuity guard
        import copy
        neg = []
        for p in [q for q in pairs if not v[q["name"]]["failing"]][:30]:
            if p["g"]["edges"]:
                q = copy.deepcopy(p)
                q["name"] += "|drop-edge|EdgesOnce"
                q["g"]["edges"].pop()
                neg.append(q)
            q = copy.deepcopy(p)
            q["name"] += "|dup-node|NodesOnce"
            q["g"]["nodes"].append(q["g"]["nodes"][0])
            neg.append(q)
            if p["g"]["clusters"]:
                q = copy.deepcopy(p)
                q["name"] += "|flatten-cluster|ClustersMirror"
                q["g"]["clusters"][-1]["within"] = -1 if q["g"]["clusters"][-1]["within"] != -1 else 999
                neg.append(q)
        vn, _ = judge(neg, wd, "neg")
        for q in neg:
            clause = q["name"].rsplit("|", 1)[1]
            if clause not in vn[q["name"]]["failing"]:
                raise MachineryError(f"vacuity: corrupted drawing {q['name']} not rejected: {vn[q['name']]['failing']}")
        ctx.note("corrupted_drawings_rejected", len(neg))
    finally:
        cleanup(wd)


def replay(path: str) -> int:
    print(json.dumps(json.load(open(path)), indent=1)[:4000])
    return 0
