"""Concrete HUGRs / extensions that specification tokens are bound to (module token i -> MODULES[i], ...).
Everything is built through the public API of the working tree."""
from __future__ import annotations


def modules(nonfinite: bool = False):
    """List of (name, Hugr) — Module-rooted HUGRs with the attributes the properties name."""
    from hugr import ops, tys, val
    from hugr.build.function import Module
    from hugr.std.int import INT_T, DivMod, IntVal
    from hugr.std.logic import Not
    out = []
    m = Module()
    out.append(("empty", m.hugr))

    m = Module()
    f = m.define_function("fünc✓", [tys.Bool])
    n = f.add_op(Not, f.inputs()[0], metadata={"k": "vä", "nested": [1, {"x": None}, 2.5]})
    f.set_outputs(n)
    m.hugr[m.hugr.root].metadata["name"] = "mödule"
    out.append(("nonascii-meta", m.hugr))

    m = Module()
    sig = tys.PolyFuncType([tys.TypeTypeParam(tys.TypeBound.Any)],
                           tys.FunctionType.endo([tys.Variable(0, tys.TypeBound.Any)]))
    decl = m.declare_function("id_decl", sig)
    f = m.define_function("main", [tys.Qubit, INT_T])
    q, i = f.inputs()
    c = f.call(decl, q, instantiation=tys.FunctionType.endo([tys.Qubit]), type_args=[tys.Qubit.type_arg()])
    k = f.load(IntVal(7, 5))
    d = f.add_op(DivMod, i, k)
    f.set_outputs(c, d[0], d[1])
    out.append(("poly-call-const", m.hugr))

    m = Module()
    f = m.define_function("nested", [tys.Bool, tys.Unit])
    b, u = f.inputs()
    with f.add_nested(b) as inner:
        x = inner.add_op(Not, inner.inputs()[0])
        inner.set_outputs(x, b)
    t = f.add_op(ops.MakeTuple(), inner[0], inner[1])
    f.set_outputs(t, u)
    out.append(("nested-ext-edge", m.hugr))

    # unbounded nat parameter ("bound": null), extension constant with a null payload, function constant whose body has metadata
    from hugr.build.dfg import Dfg
    m = Module()
    m.declare_function("natpoly", tys.PolyFuncType([tys.BoundedNatParam(), tys.ListParam(tys.BoundedNatParam())], tys.FunctionType.empty()))
    m.add_const(val.Extension("NullPayload", tys.Opaque("t", tys.TypeBound.Copyable, [], "verif.ext"), None, ["verif.ext"]))
    inner = Dfg(tys.Bool)
    x = inner.add_op(Not, inner.inputs()[0], metadata={"inner": "mëta", "k": [None, 1]})
    inner.set_outputs(x)
    inner.hugr[inner.hugr.root].metadata["root"] = True
    m.add_const(val.Tuple(val.Function(inner.hugr), val.TRUE))
    f = m.define_function("uses", [])
    f.set_outputs(f.load(val.Function(inner.hugr)))
    out.append(("null-fields-and-function-const-metadata", m.hugr))

    # general sums whose variant rows are all empty (Tuple(), Option(), Either([], []), Sum([[], []])): equal to unit sums as Python
    # values but encoded as {"s": "General", "rows": [[], ...]}; in signatures, Input/Output rows, a constant and the MakeTuple op
    m = Module()
    empties = [tys.Tuple(), tys.Option(), tys.Either([], []), tys.Sum([[], [], []])]
    f = m.define_function("empty_rows", empties)
    t0, o0, e0, s0 = f.inputs()
    mk = f.add_op(ops.MakeTuple(), )
    c = f.load(val.Tuple())
    tg = f.add_op(ops.Tag(1, tys.Sum([[], [], []])))
    f.set_outputs(t0, o0, e0, s0, mk, c, tg)
    m.declare_function("takes_empty", tys.PolyFuncType([], tys.FunctionType([tys.Option()], [tys.Tuple()])))
    out.append(("all-empty-general-sums", m.hugr))

    # calls of a row-polymorphic function at rows of length 2 and 0: the static port sits after the *instantiated* value inputs
    m = Module()
    rv = tys.RowVariable(0, tys.TypeBound.Any)
    decl = m.declare_function("row_id", tys.PolyFuncType([tys.ListParam(tys.TypeTypeParam(tys.TypeBound.Any))], tys.FunctionType.endo([rv])))
    f = m.define_function("main", [tys.Bool, tys.Qubit])
    b, q = f.inputs()
    c2 = f.call(decl, b, q, instantiation=tys.FunctionType.endo([tys.Bool, tys.Qubit]), type_args=[tys.SequenceArg([tys.Bool.type_arg(), tys.Qubit.type_arg()])])
    c0 = f.call(decl, instantiation=tys.FunctionType.endo([]), type_args=[tys.SequenceArg([])])
    f.add_state_order(c2, c0)
    f.set_outputs(c2[0], c2[1])
    out.append(("row-poly-calls", m.hugr))

    # metadata entries whose values are falsy JSON values; polymorphic functions whose copyable type parameters come after other parameters
    m = Module()
    A, C = tys.TypeBound.Any, tys.TypeBound.Copyable
    ps = [tys.TypeTypeParam(A), tys.TypeTypeParam(C), tys.BoundedNatParam(), tys.TypeTypeParam(C), tys.TypeTypeParam(A)]
    decl = m.declare_function("poly_mixed", tys.PolyFuncType(ps, tys.FunctionType([tys.Variable(1, C)], [tys.Variable(3, C)])))
    f = m.define_function("falsy_meta", [tys.Bool], type_params=[tys.TypeTypeParam(A), tys.TypeTypeParam(C)])
    n = f.add_op(Not, f.inputs()[0], metadata={"zero": 0, "false": False, "empty": "", "list": [], "dict": {}, "null": None, "zf": 0.0})
    f.set_outputs(n)
    m.hugr[decl].metadata["flag"] = False
    m.hugr[f.parent_node].metadata["count"] = 0
    out.append(("falsy-metadata-and-mixed-type-params", m.hugr))

    # an indirect call that is the target and the source of state-order edges: its order port comes after the function input AND the arguments
    m = Module()
    g = m.define_function("callee", [tys.Bool, tys.Bool], [tys.Bool])
    g.set_outputs(g.inputs()[0])
    f = m.define_function("indirect", [tys.Bool])
    (b,) = f.inputs()
    fv = f.load_function(g.parent_node)
    first = f.add_op(Not, b)
    ci = f.add_op(ops.CallIndirect(), fv, first, b)
    last = f.add_op(Not, ci[0])
    f.add_state_order(first, ci)
    f.add_state_order(ci, last)
    f.set_outputs(last)
    out.append(("call-indirect-with-order-edges", m.hugr))

    # a tail loop whose just-outputs row differs from its rest row; a basic block with a non-empty extension delta; non-finite floats
    import math

    from hugr.std.float import FloatVal
    m = Module()
    f = m.define_function("loop_and_block", [tys.Qubit, tys.Bool])
    q, b = f.inputs()
    tl = f.add_tail_loop([q], [b])
    tq, tb = tl.inputs()
    brk = tl.add_op(ops.Tag(1, tys.Sum([[tys.Qubit], [tys.Qubit, INT_T]])), tq, tl.load(IntVal(1, 5)))
    tl.set_loop_outputs(brk, tb)
    cfg = f.add_cfg(tl.parent_node[2])
    e = cfg.add_entry()
    e.set_single_succ_outputs(e.inputs()[0])
    e.parent_op.extension_delta = ["verif.ext", "logic"]
    cfg.branch_exit(e[0])
    # (non-finite floats are not JSON: they are outside the round-trip properties and only serve C03's "the document is JSON" check)
    inf = f.load(FloatVal(math.inf if nonfinite else 2.5))
    n = f.add_op(Not, cfg.parent_node[0], metadata={"nan": math.nan, "ninf": -math.inf, "ok": 1.5} if nonfinite else {"ok": 1.5})
    f.set_outputs(tl.parent_node[0], tl.parent_node[1], n, inf)
    out.append(("tailloop-rows-block-delta" + ("-nonfinite-floats" if nonfinite else ""), m.hugr))

    # several different extension operations held as generic ExtOp objects (one Python class), a function-typed wire, a one-block loop
    from hugr.std.logic import EXTENSION as LOGIC_EXT
    m = Module()
    f = m.define_function("generic_ext_ops", [tys.Bool, tys.Bool])
    x, y = f.inputs()
    names = [n for n in ("And", "Or", "Xor", "Eq") if n in LOGIC_EXT.operations][:3]
    outs = []
    for nm in names:
        od = LOGIC_EXT.operations[nm]
        outs.append(f.add_op(od.instantiate([tys.BoundedNatArg(2)], tys.FunctionType([tys.Bool, tys.Bool], [tys.Bool])), x, y))
    fv = f.load_function(f.parent_node) if False else None
    cfg = f.add_cfg(x)
    e = cfg.add_entry()
    e.set_outputs(e.inputs()[0])
    cfg.branch(e[0], e)                      # a block that is its own successor
    cfg.branch_exit(e[1])
    f.set_outputs(*outs)
    out.append(("generic-ext-ops-and-one-block-loop", m.hugr))
    return out


def extensions():
    """List of (name, Extension)."""
    from hugr import ext, tys, val
    from hugr.std.int import INT_OPS_EXTENSION, INT_TYPES_EXTENSION
    from hugr.std.logic import EXTENSION as LOGIC
    out = []
    e = ext.Extension("verif.ünï", ext.Version(1, 2, 3), runtime_reqs={"logic", "prelude"})
    td = e.add_type_def(ext.TypeDef("Lin", "a linear ⊸ type", [tys.TypeTypeParam(tys.TypeBound.Any)], ext.FromParamsBound([0])))
    e.add_type_def(ext.TypeDef("Cpy", "copyable", [], ext.ExplicitBound(tys.TypeBound.Copyable)))
    e.add_op_def(ext.OpDef("mk", ext.OpDefSig(tys.PolyFuncType([tys.TypeTypeParam(tys.TypeBound.Any)],
                 tys.FunctionType([tys.Variable(0, tys.TypeBound.Any)], [td.instantiate([tys.Variable(0, tys.TypeBound.Any).type_arg()])]))),
                 description="mäke", misc={"a": [1, 2], "b": {"c": None}}))
    e.add_op_def(ext.OpDef("bin", ext.OpDefSig(None, binary=True), description="binary computed"))
    e.add_extension_value(ext.ExtensionValue("T", val.TRUE))
    out.append(("custom", e))
    # a second extension with the SAME name (another version): order and multiplicity must survive
    e2 = ext.Extension("verif.ünï", ext.Version(2, 0, 0))
    e2.add_type_def(ext.TypeDef("Other", "v2 only", [], ext.ExplicitBound(tys.TypeBound.Any)))
    out.append(("custom-v2-same-name", e2))
    out += [("logic", LOGIC), ("int.types", INT_TYPES_EXTENSION), ("int", INT_OPS_EXTENSION)]
    # requirement names handed over as a list with a repeated entry (the sum of two signatures' requirement lists): still a set on the wire
    e3 = ext.Extension("verif.reqs", ext.Version(0, 1, 0), runtime_reqs=["logic", "prelude", "logic"])
    e3.add_type_def(ext.TypeDef("T", "", [], ext.ExplicitBound(tys.TypeBound.Copyable)))
    out.append(("requirements-given-as-list", e3))
    return out


def norm_sets(x):
    """Normalise fields that the schema declares to be sets (their order depends on hashing)."""
    if isinstance(x, dict):
        return {k: (sorted(v) if k in ("runtime_reqs", "extension_delta", "extensions", "exts") and isinstance(v, list)
                    and all(isinstance(i, str) for i in v) else norm_sets(v)) for k, v in x.items()}
    if isinstance(x, list):
        return [norm_sets(i) for i in x]
    return x
