"""Generic S->C replayer: re-execute the action path of every emitted transition on the real objects and
compare the projection of the real post-state with the specification's expected observation."""
from __future__ import annotations

import json


def canon(x):
    """Canonical JSON-ish value: lists stay lists, tuples -> lists."""
    if isinstance(x, (list, tuple)):
        return [canon(i) for i in x]
    if isinstance(x, dict):
        return {str(k): canon(v) for k, v in x.items()}
    return x


def as_bag(xs):
    return sorted(json.dumps(canon(x), sort_keys=True) for x in xs)


def diff_fields(expected: dict, observed: dict, comparators: dict) -> list:
    """Compare field by field. comparators[field] in {'eq','bag','set','ge','skip'}; default 'eq'.
    Returns list of (field, expected, observed)."""
    out = []
    for f, ev in expected.items():
        mode = comparators.get(f, "eq")
        if mode == "skip":
            continue
        if f not in observed:
            out.append((f, ev, "<missing>"))
            continue
        ov = observed[f]
        if mode == "eq":
            ok = canon(ev) == canon(ov)
        elif mode == "bag":
            ok = as_bag(ev) == as_bag(ov)
        elif mode == "set":
            ok = set(as_bag(ev)) == set(as_bag(ov))
        elif mode == "ge":
            ok = ov >= ev
        else:
            raise ValueError(mode)
        if not ok:
            out.append((f, ev, ov))
    return out


class PathReplayer:
    """adapter_factory() -> object with .apply(event) -> result-class string, .project() -> dict."""

    def __init__(self, ctx, adapter_factory, comparators=None, sig_of=None, nontrivial_of=None):
        self.ctx = ctx
        self.factory = adapter_factory
        self.comparators = comparators or {}
        self.sig_of = sig_of or (lambda line, field: {"action": line["hist"][-1]["a"], "field": field})
        self.nontrivial_of = nontrivial_of
        self.n = 0
        self.calls = 0

    def feed(self, line: dict) -> None:
        hist = line["hist"]
        ad = self.factory()
        res = None
        for ev in hist:
            res = ad.apply(ev)
            self.calls += 1
        obs = ad.project()
        self.n += 1
        self.ctx.evaluations += 1
        if self.nontrivial_of and self.nontrivial_of(line):
            self.ctx.nontriv(hist)
        if len(hist) >= 3:
            self.ctx.sample({"hist": hist, "res": line.get("res"), "obs": line.get("obs")})
        if "res" in line and res != line["res"]:
            self.ctx.violation(self.sig_of(line, "res"), line, line["res"], res, clause="result class of the call")
            return
        for f, ev, ov in diff_fields(line["obs"], obs, self.comparators):
            self.ctx.violation(self.sig_of(line, f), line, ev, ov, clause=f"observation field {f}")
            return
