"""C->S: validate executions recorded from the real code against a Trace_* specification, in one TLC run."""
from __future__ import annotations

import json
from pathlib import Path

from .tlc import MachineryError, run_tlc


def validate_traces(ctx, name: str, module: str, traces: list, wd: Path, *, constants: str = "",
                    invariants=(), properties=(), spec_init="TInit2", spec_next="TNext", heap="3g", timeout=1800,
                    extra_env=None):
    """Validates in chunks of bounded size (one TLC start each) and merges.  Returns (result, rejected_ids).  rejected = [(0-based trace index, position of the first event that was not matched, 1-based)]."""
    max_events = 40000
    if sum(len(t) for t in traces) > max_events and len(traces) > 1:
        chunks, cur, cnt = [], [], 0
        for t in traces:
            if cur and cnt + len(t) > max_events:
                chunks.append(cur)
                cur, cnt = [], 0
            cur.append(t)
            cnt += len(t)
        chunks.append(cur)
        total, rejected, base = None, [], 0
        for k, ch in enumerate(chunks):
            r, rej = validate_traces(ctx, f"{name}-{k}", module, ch, wd, constants=constants, invariants=invariants, properties=properties,
                                     spec_init=spec_init, spec_next=spec_next, heap=heap, timeout=timeout, extra_env=extra_env)
            rejected += [(i + base, at) for i, at in rej]
            base += len(ch)
            if total is None:
                total = r
            else:
                total.generated += r.generated
                total.distinct += r.distinct
                total.wall_s += r.wall_s
                total.depth = max(total.depth, r.depth)
                total.violated = total.violated or r.violated
        return total, rejected
    tf = wd / f"{name}.traces.json"
    tf.write_text(json.dumps(traces))
    cfg = [f"INIT {spec_init}", f"NEXT {spec_next}", "CHECK_DEADLOCK FALSE"]
    if constants:
        cfg.append(constants)
    for i in invariants:
        cfg.append(f"INVARIANT {i}")
    for p in properties:
        cfg.append(f"PROPERTY {p}")
    cfg.append("CONSTRAINT Progress")
    cfg.append("POSTCONDITION Accepted")
    env = {"TRACE_FILE": str(tf)}
    env.update(extra_env or {})
    res = run_tlc(module, "\n".join(cfg) + "\n", wd, workers=1, env=env, heap=heap, timeout=timeout)
    rejected = []
    for ln in res.lines:
        if isinstance(ln, dict) and "rejected" in ln:
            rejected = [(i - 1, at) for i, at in ln["rejected"]]
    if res.exit_code != 0 and not rejected and res.violated is None:
        raise MachineryError(f"{name}: trace validation failed to run: exit {res.exit_code}\n{res.error_text}")
    return res, rejected
