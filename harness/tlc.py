"""Run TLC on a specification and parse what it prints.

The harness never interprets TLA+ itself; it only (a) writes .cfg files / generated constant modules,
(b) starts TLC, (c) collects the JSON lines that specifications print with PrintT(ToJson(..)),
(d) reads the state statistics, coverage and error verdict.
"""
from __future__ import annotations

import json
import os
import re
import shutil
import subprocess
import time
from dataclasses import dataclass, field
from pathlib import Path

VERIF = Path(__file__).resolve().parent.parent
SPEC = VERIF / "spec"
JAR = "/opt/veriftools/tla/tla2tools.jar"
DEPS = "/opt/veriftools/tla/CommunityModules-deps.jar"


class MachineryError(Exception):
    """TLC crashed / spec did not parse / harness bug: exit 2, never a VIOLATION."""


@dataclass
class TLCResult:
    ok: bool                       # finished without reporting an error
    exit_code: int
    generated: int = 0             # states generated (= transitions examined + initial states)
    distinct: int = 0
    depth: int = 0
    lines: list = field(default_factory=list)      # decoded JSON values printed by the spec
    violated: str | None = None    # name of violated invariant / property
    error_text: str = ""
    coverage: dict = field(default_factory=dict)   # action name -> (taken, distinct)
    wall_s: float = 0.0
    stdout: str = ""
    cmd: str = ""


_STATS = re.compile(r"(\d+) states generated, (\d+) distinct states found")
_DEPTH = re.compile(r"The depth of the complete state graph search is (\d+)")
_INV = re.compile(r"Error: Invariant (\S+) is violated")
_PROP = re.compile(r"Error: Action property (\S+) is violated|Error: Temporal properties were violated")
_COV = re.compile(r"^<(\w+) line \d+, col \d+ to line \d+, col \d+ of module (\w+)>: (\d+):(\d+)")


def workdir(tag: str) -> Path:
    d = VERIF / ".work" / f"{tag}-{os.getpid()}-{int(time.time()*1000)%100000}"
    d.mkdir(parents=True, exist_ok=True)
    return d


def cleanup(d: Path) -> None:
    shutil.rmtree(d, ignore_errors=True)


def decode_line(line: str):
    """A PrintT(ToJson(x)) line is a TLA+ string literal holding JSON text."""
    return json.loads(json.loads(line))


def run_tlc(module: str, cfg: str, wd: Path, *, workers: int | str = 1, simulate: str | None = None,
            depth: int | None = None, seed: int | None = None, env: dict | None = None,
            coverage: bool = False, heap: str = "3g", timeout: int = 3600, extra: list | None = None,
            want_lines: bool = True, dfs: bool = False, line_sink=None, continue_: bool = False) -> TLCResult:
    """Run TLC on /verif/spec/<module>.tla with configuration text `cfg`.

    Extra modules generated for this run (constants, wrappers) may be placed in `wd`; if `wd/<module>.tla`
    exists it is used as the root module and /verif/spec is put on the library path.
    """
    cfgp = wd / f"{module}.cfg"
    cfgp.write_text(cfg)
    root = wd / f"{module}.tla"
    if not root.exists():
        root = SPEC / f"{module}.tla"
    java = ["java", "-XX:+UseParallelGC", f"-Xmx{heap}", "-Xss256m", f"-DTLA-Library={SPEC}"]
    if dfs:
        java.append("-Dtlc2.tool.queue.IStateQueue=StateDeque")
    cmd = java + ["-cp", f"{JAR}:{DEPS}", "tlc2.TLC", "-workers", str(workers), "-metadir", str(wd / "meta"),
                  "-noGenerateSpecTE", "-config", str(cfgp)]
    if simulate is not None:
        cmd += ["-simulate", simulate]
    if depth is not None:
        cmd += ["-depth", str(depth)]
    if seed is not None:
        cmd += ["-seed", str(seed)]
    if coverage:
        cmd += ["-coverage", "1"]
    if continue_:
        cmd += ["-continue"]
    if extra:
        cmd += extra
    cmd.append(str(root))
    e = dict(os.environ)
    e.pop("JAVA_TOOL_OPTIONS", None)
    if env:
        e.update({k: str(v) for k, v in env.items()})
    t0 = time.time()
    res = TLCResult(ok=False, exit_code=-1, cmd=" ".join(cmd))
    outp = wd / f"{module}.out"
    with open(outp, "w") as fo:
        try:
            p = subprocess.run(cmd, stdout=fo, stderr=subprocess.STDOUT, env=e, cwd=str(wd), timeout=timeout)
        except subprocess.TimeoutExpired:
            raise MachineryError(f"TLC timeout after {timeout}s: {' '.join(cmd)}")
    res.wall_s = time.time() - t0
    res.exit_code = p.returncode
    tail = []
    with open(outp, errors="replace") as fi:
        for raw in fi:
            line = raw.rstrip("\n")
            if line.startswith('"') and line.endswith('"') and len(line) > 1:
                if want_lines or line_sink:
                    try:
                        v = decode_line(line)
                    except Exception:
                        tail.append(line)
                        continue
                    if line_sink:
                        line_sink(v)
                    else:
                        res.lines.append(v)
                continue
            tail.append(line)
            m = _STATS.search(line)
            if m:
                res.generated, res.distinct = int(m.group(1)), int(m.group(2))
            m = _DEPTH.search(line)
            if m:
                res.depth = int(m.group(1))
            m = _INV.search(line)
            if m:
                res.violated = m.group(1)
            m = _PROP.search(line)
            if m:
                res.violated = m.group(1) or "temporal"
            m = _COV.match(line)
            if m:
                k = m.group(1)
                a, b = res.coverage.get(k, (0, 0))
                res.coverage[k] = (a + int(m.group(3)), b + int(m.group(4)))
    res.stdout = "\n".join(tail[-400:])
    if simulate is not None and not res.generated:
        m = re.search(r"The number of states generated: (\d+)", res.stdout)
        if m:
            res.generated = int(m.group(1))
            res.distinct = res.distinct or res.generated
    res.ok = p.returncode == 0 and res.violated is None
    if p.returncode != 0 and res.violated is None:
        # distinguish evaluation errors / parse errors (machinery) from violations
        if "is violated" in res.stdout or "Deadlock reached" in res.stdout or "postcondition" in res.stdout.lower():
            res.violated = res.violated or "postcondition-or-deadlock"
        res.error_text = "\n".join(tail[-60:])
    return res


def require_clean(res: TLCResult, what: str) -> None:
    """Raise MachineryError unless TLC finished normally (no violation, no crash)."""
    if res.exit_code != 0 and res.violated is None:
        raise MachineryError(f"{what}: TLC exit {res.exit_code}\n{res.error_text}")


def sany(module_path: Path) -> bool:
    p = subprocess.run(["java", "-cp", f"{JAR}:{DEPS}", f"-DTLA-Library={SPEC}", "tla2sany.SANY", str(module_path)],
                       capture_output=True, text=True, cwd=str(module_path.parent))
    out = p.stdout + p.stderr
    return p.returncode == 0 and "*** Errors" not in out and "Fatal" not in out and "Could not" not in out
