"""Bridge between specification terms (HugrWire vocabulary, as emitted by TLC) and hugr-py objects.

build_*  : object-view term  -> Python object, through the public constructors only
proj_*   : Python object     -> wire-vocabulary JSON, read attribute by attribute (never via _to_serial)
enc_*    : Python object     -> what the implementation serializes (model_dump of _to_serial_root)
dec_*    : wire JSON         -> Python object via the pydantic models + deserialize()
"""
from __future__ import annotations

import json

from .tlc import MachineryError

SET_KEYS = ("runtime_reqs", "extension_delta", "extensions", "es")


def canon(x):
    """Canonical JSON value: set-typed string lists sorted, tuples as lists."""
    if isinstance(x, dict):
        return {k: (sorted(v) if k in SET_KEYS and isinstance(v, (list, tuple, set)) and all(isinstance(i, str) for i in v)
                    else canon(v)) for k, v in x.items()}
    if isinstance(x, (list, tuple)):
        return [canon(i) for i in x]
    return x


def from_tla(x):
    """TLC prints absent integers as -1 in `bound` of BoundedNat params; everything else is verbatim."""
    if isinstance(x, dict):
        if x.get("tp") == "BoundedNat":
            return {"tp": "BoundedNat", "bound": None if x["bound"] < 0 else x["bound"]}
        return {k: from_tla(v) for k, v in x.items()}
    if isinstance(x, list):
        return [from_tla(i) for i in x]
    return x


# ------------------------------------------------------------------ builders
_EXT_CACHE: dict = {}


def _bound(b):
    from hugr import tys
    return tys.TypeBound.Copyable if b == "C" else tys.TypeBound.Any


def build_param(p):
    from hugr import tys
    k = p["tp"]
    if k == "Type":
        return tys.TypeTypeParam(_bound(p["b"]))
    if k == "BoundedNat":
        b = p["bound"]
        return tys.BoundedNatParam(None if b is None or b < 0 else b)
    if k == "String":
        return tys.StringParam()
    if k == "Extensions":
        return tys.ExtensionsParam()
    if k == "List":
        return tys.ListParam(build_param(p["param"]))
    if k == "Tuple":
        return tys.TupleParam([build_param(q) for q in p["params"]])
    raise MachineryError(f"param kind {k}")


def build_arg(a):
    from hugr import tys
    k = a["tya"]
    if k == "Type":
        return tys.TypeTypeArg(build_type(a["ty"]))
    if k == "BoundedNat":
        return tys.BoundedNatArg(a["n"])
    if k == "String":
        return tys.StringArg(a["arg"])
    if k == "Sequence":
        return tys.SequenceArg([build_arg(e) for e in a["elems"]])
    if k == "Extensions":
        return tys.ExtensionsArg(list(a["es"]))
    if k == "Variable":
        return tys.VariableArg(a["idx"], build_param(a["cached_decl"]))
    raise MachineryError(f"arg kind {k}")


def _param_for_arg(a):
    from hugr import tys
    k = a["tya"]
    if k == "Type":
        # the definition declares each type parameter with the bound of the argument it is instantiated at (the tightest legal
        # declaration): definitions with mixed declared bounds exist, and a declared bound is not the bound of the instance
        try:
            return tys.TypeTypeParam(build_type(a["ty"]).type_bound())
        except Exception:  # noqa: BLE001
            return tys.TypeTypeParam(tys.TypeBound.Any)
    if k == "BoundedNat":
        return tys.BoundedNatParam()
    if k == "String":
        return tys.StringParam()
    if k == "Extensions":
        return tys.ExtensionsParam()
    if k == "Variable":
        return build_param(a["cached_decl"])
    return tys.ListParam(tys.TypeTypeParam(tys.TypeBound.Any))


def typedef_for(extension: str, name: str, args, bspec):
    """A TypeDef registered in an Extension named `extension`, with the given bound specification."""
    from hugr import ext
    key = (extension, name, len(args), repr(bspec), tuple(a["tya"] for a in args), json.dumps(args, sort_keys=True))
    if key not in _EXT_CACHE:
        e = ext.Extension(extension, ext.Version(0, 1, 0))
        b = ext.ExplicitBound(_bound(bspec["bound"])) if bspec["b"] == "Explicit" else ext.FromParamsBound(list(bspec["indices"]))
        _EXT_CACHE[key] = e.add_type_def(ext.TypeDef(name, "", [_param_for_arg(a) for a in args], b))
    return _EXT_CACHE[key]


def build_row(r):
    return [build_type(t) for t in r]


def build_type(t, general: bool = False):
    """general=True builds sugar sums through the general tys.Sum constructor instead."""
    from hugr import tys
    k = t["t"]
    if k == "Q":
        return tys.Qubit
    if k == "I":
        return tys.USize()
    if k == "V":
        return tys.Variable(t["i"], _bound(t["b"]))
    if k == "R":
        return tys.RowVariable(t["i"], _bound(t["b"]))
    if k == "Alias":
        return tys.Alias(t["name"], _bound(t["bound"]))
    if k == "G":
        return tys.FunctionType(build_row(t["input"]), build_row(t["output"]), list(t.get("runtime_reqs", [])))
    if k == "Sum":
        if t["s"] == "Unit":
            return tys.Sum([[] for _ in range(t["size"])]) if general else tys.UnitSum(t["size"])
        return tys.Sum([build_row(r) for r in t["rows"]])
    if k == "Tuple":
        return tys.Sum([build_row(t["elems"])]) if general else tys.Tuple(*build_row(t["elems"]))
    if k == "Option":
        return tys.Sum([[], build_row(t["elems"])]) if general else tys.Option(*build_row(t["elems"]))
    if k == "Either":
        return (tys.Sum([build_row(t["left"]), build_row(t["right"])]) if general
                else tys.Either(build_row(t["left"]), build_row(t["right"])))
    if k == "Opaque":
        return tys.Opaque(id=t["id"], bound=_bound(t["bound"]), args=[build_arg(a) for a in t["args"]], extension=t["extension"])
    if k == "Ext":
        td = typedef_for(t["extension"], t["id"], t["args"], t["bspec"])
        return td.instantiate([build_arg(a) for a in t["args"]])
    raise MachineryError(f"type kind {k}")


def build_poly(p):
    from hugr import tys
    return tys.PolyFuncType([build_param(q) for q in p["params"]], build_type(p["body"]))


# ------------------------------------------------------------------ projections (attribute by attribute)
def _b(b):
    return b.value


def proj_param(p):
    from hugr import tys
    if isinstance(p, tys.TypeTypeParam):
        return {"tp": "Type", "b": _b(p.bound)}
    if isinstance(p, tys.BoundedNatParam):
        return {"tp": "BoundedNat", "bound": p.upper_bound}
    if isinstance(p, tys.StringParam):
        return {"tp": "String"}
    if isinstance(p, tys.ExtensionsParam):
        return {"tp": "Extensions"}
    if isinstance(p, tys.ListParam):
        return {"tp": "List", "param": proj_param(p.param)}
    if isinstance(p, tys.TupleParam):
        return {"tp": "Tuple", "params": [proj_param(q) for q in p.params]}
    return {"tp": f"?{type(p).__name__}"}


def proj_arg(a):
    from hugr import tys
    if isinstance(a, tys.TypeTypeArg):
        return {"tya": "Type", "ty": proj_type(a.ty)}
    if isinstance(a, tys.BoundedNatArg):
        return {"tya": "BoundedNat", "n": a.n}
    if isinstance(a, tys.StringArg):
        return {"tya": "String", "arg": a.value}
    if isinstance(a, tys.SequenceArg):
        return {"tya": "Sequence", "elems": [proj_arg(e) for e in a.elems]}
    if isinstance(a, tys.ExtensionsArg):
        return {"tya": "Extensions", "es": list(a.extensions)}
    if isinstance(a, tys.VariableArg):
        return {"tya": "Variable", "idx": a.idx, "cached_decl": proj_param(a.param)}
    return {"tya": f"?{type(a).__name__}"}


def proj_type(t):
    """Wire-vocabulary view of a Python type object as the *decoder* produces it (general classes)."""
    from hugr import tys
    if isinstance(t, tys._QubitDef):
        return {"t": "Q"}
    if isinstance(t, tys.USize):
        return {"t": "I"}
    if isinstance(t, tys.Variable):
        return {"t": "V", "i": t.idx, "b": _b(t.bound)}
    if isinstance(t, tys.RowVariable):
        return {"t": "R", "i": t.idx, "b": _b(t.bound)}
    if isinstance(t, tys.Alias):
        return {"t": "Alias", "bound": _b(t.bound), "name": t.name}
    if isinstance(t, tys.FunctionType):
        return {"t": "G", "input": [proj_type(x) for x in t.input], "output": [proj_type(x) for x in t.output],
                "runtime_reqs": list(t.runtime_reqs)}
    if type(t) is tys.UnitSum:
        return {"t": "Sum", "s": "Unit", "size": t.size}
    if isinstance(t, tys.Sum):
        return {"t": "Sum", "s": "General", "rows": [[proj_type(x) for x in r] for r in t.variant_rows]}
    if isinstance(t, tys.ExtType):
        return {"t": "ExtType", "extension": t.type_def.get_extension().name, "id": t.type_def.name,
                "args": [proj_arg(a) for a in t.args]}
    if isinstance(t, tys.Opaque):
        return {"t": "Opaque", "extension": t.extension, "id": t.id, "args": [proj_arg(a) for a in t.args], "bound": _b(t.bound)}
    return {"t": f"?{type(t).__name__}"}


def proj_poly(p):
    return {"params": [proj_param(q) for q in p.params], "body": proj_type(p.body)}


# ------------------------------------------------------------------ the implementation's codec
def enc_type(obj):
    return obj._to_serial_root().model_dump(mode="json")


def dec_type(w):
    import hugr._serialization.tys as stys
    return stys.Type.model_validate(w).deserialize()


def enc_param(obj):
    return obj._to_serial_root().model_dump(mode="json")


def dec_param(w):
    import hugr._serialization.tys as stys
    return stys.TypeParam.model_validate(w).deserialize()


def enc_arg(obj):
    return obj._to_serial_root().model_dump(mode="json")


def dec_arg(w):
    import hugr._serialization.tys as stys
    return stys.TypeArg.model_validate(w).deserialize()


# ------------------------------------------------------------------ type normalisation (types, not spellings)
def norm_t(w):
    """Identify the two wire spellings of sums of empty rows; drop nothing else."""
    if isinstance(w, dict):
        if w.get("t") == "Sum" and w.get("s") == "Unit":
            return {"t": "Sum", "s": "General", "rows": [[] for _ in range(w["size"])]}
        return {k: norm_t(v) for k, v in w.items()}
    if isinstance(w, (list, tuple)):
        return [norm_t(x) for x in w]
    return w


def same_t(a, b) -> bool:
    return canon(norm_t(a)) == canon(norm_t(b))


# ------------------------------------------------------------------ values
FLOATS = {"#f1": 1.5, "#f2": -0.25}


def std_tys():
    from hugr.std.float import FLOAT_T
    from hugr.std.int import int_t
    from hugr.std.prelude import STRING_T
    return int_t, FLOAT_T, STRING_T


def build_value(v, once=False):
    """Object-view value term -> Python value through the helper classes. once=True passes one-shot iterators wherever the
    constructor's signature says Iterable (Left / Right / Sum): the value must be the same."""
    it = (lambda xs: iter(list(xs))) if once == True else (lambda xs: xs)  # noqa: E712
    if once == "aliased":
        # the caller keeps the list it passed and appends to it afterwards: the value was fixed at construction
        def it(xs):  # noqa: F811
            lst = list(xs)
            _ALIASED.append(lst)
            return lst
    if once == "shared":
        # equal sub-terms are ONE Python object (`[x] * n`, a reused tuple): position still counts
        key = json.dumps(v, sort_keys=True)
        if key in _SHARED:
            return _SHARED[key]
        obj = _build_value_inner(v, once, it)
        _SHARED[key] = obj
        return obj
    return _build_value_inner(v, once, it)


_SHARED: dict = {}
_ALIASED: list = []


def poison_aliased():
    """append a stray element to every list handed to a constructor in 'aliased' mode"""
    from hugr import tys, val
    for lst in _ALIASED:
        lst.append(val.TRUE if (lst and hasattr(lst[0], "type_")) or not lst else tys.Bool)
    _ALIASED.clear()


def _build_value_inner(v, once, it):
    from hugr import val
    from hugr.build.dfg import Dfg
    from hugr.std.collections.array import ArrayVal
    from hugr.std.collections.list import ListVal
    from hugr.std.collections.static_array import StaticArrayVal
    from hugr.std.float import FloatVal
    from hugr.std.int import IntVal
    from hugr.std.prelude import StringVal
    k = v["v"]
    if k == "Int":
        return IntVal(v["n"], v["w"])
    if k == "Float":
        return FloatVal(FLOATS[v["f"]])
    if k == "String":
        return StringVal(v["s"])
    if k == "Array":
        return ArrayVal([build_value(x, once) for x in v["vs"]], build_type(v["elem"]))
    if k == "List":
        return ListVal([build_value(x, once) for x in v["vs"]], build_type(v["elem"]))
    if k == "StaticArray":
        return StaticArrayVal([build_value(x, once) for x in v["vs"]], build_type(v["elem"]), v["name"])
    if k == "UnitSum":
        return val.UnitSum(v["tag"], v["size"])
    if k == "Some":
        return val.Some(*[build_value(x, once) for x in v["vs"]])
    if k == "None":
        return val.None_(*build_row(v["tys"]))
    if k == "Left":
        return val.Left(it([build_value(x, once) for x in v["vs"]]), it(build_row(v["tys"])))
    if k == "Right":
        return val.Right(it(build_row(v["tys"])), it([build_value(x, once) for x in v["vs"]]))
    if k == "Tuple":
        return val.Tuple(*[build_value(x, once) for x in v["vs"]])
    if k == "Sum":
        vs = [build_value(x, once) for x in v["vs"]]
        # (the general Sum dataclass keeps the list it is given - ordinary dataclass behaviour; only the helper constructors copy)
        return val.Sum(v["tag"], build_type(v["typ"]), vs if once == "aliased" else it(vs))
    if k == "Function":
        row = build_row(v["sig"]["input"])
        d = Dfg(*row)
        d.set_outputs(*d.inputs())
        if v["sig"].get("runtime_reqs"):         # the body's root DFG declares extension requirements
            d.parent_op._extension_delta = list(v["sig"]["runtime_reqs"])
        if "first" in v:            # same object, body re-assigned after its type was inspected
            d0 = Dfg(*build_row(v["first"]))
            d0.set_outputs(*d0.inputs())
            f = val.Function(d0.hugr)
            f.type_()
            f._to_serial_root()
            f.body = d.hugr
            return f
        return val.Function(d.hugr)
    raise MachineryError(f"value kind {k}")


def fix_payload(x):
    """float tokens in expected payloads -> floats"""
    if isinstance(x, dict):
        return {k: fix_payload(v) for k, v in x.items()}
    if isinstance(x, list):
        return [fix_payload(i) for i in x]
    if isinstance(x, str) and x in FLOATS:
        return FLOATS[x]
    return x


def enc_value(obj):
    return obj._to_serial_root().model_dump(mode="json")


def dec_value(w):
    import hugr._serialization.ops as sops
    return sops.Value.model_validate(w).deserialize()


def strip_hugr(w):
    """Function values embed a whole serialized HUGR: compare nodes and edges only (version/encoder/metadata are envelope data)."""
    if isinstance(w, dict):
        if w.get("v") == "Function" and isinstance(w.get("hugr"), dict):
            h = w["hugr"]
            md = h.get("metadata")
            md = md if md and any(m for m in md) else None
            return {"v": "Function", "hugr": {"nodes": strip_hugr(h.get("nodes")), "edges": strip_hugr(h.get("edges")), "metadata": md}}
        return {k: strip_hugr(v) for k, v in w.items()}
    if isinstance(w, (list, tuple)):
        return [strip_hugr(x) for x in w]
    return w


def proj_value(v):
    """Decoded value, attribute by attribute (general classes)."""
    from hugr import val
    if isinstance(v, val.Tuple):
        return {"v": "Tuple", "vs": [proj_value(x) for x in v.vals]}
    if isinstance(v, val.Sum):
        return {"v": "Sum", "tag": v.tag, "typ": proj_type(v.typ), "vs": [proj_value(x) for x in v.vals]}
    if isinstance(v, val.Extension):
        return {"v": "Extension", "extensions": list(v.extensions), "typ": proj_type(v.typ), "value": {"c": v.name, "v": v.val}}
    if isinstance(v, val.Function):
        import json
        d = json.loads(v.body.to_json())
        return {"v": "Function", "hugr": {"nodes": d["nodes"], "edges": d["edges"], "metadata": d.get("metadata")}}
    return {"v": f"?{type(v).__name__}"}


# ------------------------------------------------------------------ operations
_OPDEF_CACHE: dict = {}


def opdef_for(extension, name, defsig, ddesc):
    from hugr import ext
    key = (extension, name, repr(defsig), ddesc)
    if key not in _OPDEF_CACHE:
        e = ext.Extension(extension, ext.Version(0, 1, 0))
        _OPDEF_CACHE[key] = e.add_op_def(ext.OpDef(name, ext.OpDefSig(build_poly(defsig)), description=ddesc))
    return _OPDEF_CACHE[key]


def build_sugar_op(o):
    from hugr import ops, tys
    k = o["op"]
    if k == "ExtOp":
        od = opdef_for(o["extension"], o["name"], o["defsig"], o["ddesc"])
        cached = None if "none" in o["cached"] else build_type(o["cached"])
        return ops.ExtOp(od, cached, [build_arg(a) for a in o["args"]])
    if k == "MakeTuple":
        return ops.MakeTuple(build_row(o["types"]))
    if k == "UnpackTuple":
        return ops.UnpackTuple(build_row(o["types"]))
    if k == "Noop":
        return ops.Noop(build_type(o["ty"]))
    if k == "Some":
        return ops.Some(*build_row(o["tys"]))
    cls = {"Left": ops.Left, "Right": ops.Right, "Continue": ops.Continue, "Break": ops.Break}[k]
    return cls(tys.Either(build_row(o["left"]), build_row(o["right"])))


def infer_partial_op(o, obj):
    """The same operation obtained the way builder programs obtain it: an argument-less partial op (CallIndirect(), MakeTuple(),
    UnpackTuple(), Noop()) placed with add_op on wires of the right types, its types inferred by `_set_in_types`. Returns None when
    the term is not one of these."""
    from hugr import ops
    from hugr.build.dfg import Dfg
    k = o["op"]
    fresh = {"CallIndirect": ops.CallIndirect, "MakeTuple": ops.MakeTuple, "UnpackTuple": ops.UnpackTuple, "Noop": ops.Noop}.get(k)
    if fresh is None:
        return None
    ins = list(obj.outer_signature().input)
    d = Dfg(*ins)
    n = d.add_op(fresh(), *d.inputs())
    return d.hugr[n].op


def call_through_builders(o, obj):
    """A Call / LoadFunction term obtained the way programs obtain it: the callee defined with `define_function(..., type_params=...)`
    (declared outputs), then `call` / `load_function` with the term's instantiation and type arguments. None for other terms."""
    from hugr.build.function import Module
    if o["op"] not in ("Call", "LoadFunction"):
        return None
    poly = obj.signature
    m = Module()
    f = m.define_function("callee", list(poly.body.input), list(poly.body.output), type_params=list(poly.params))
    inst = obj.instantiation
    if o["op"] == "Call":
        caller = m.define_function("caller", list(inst.input))
        n = caller.call(f.parent_node, *caller.inputs(), instantiation=inst, type_args=list(obj.type_args))
    else:
        caller = m.define_function("caller", [])
        n = caller.load_function(f.parent_node, instantiation=inst, type_args=list(obj.type_args))
    return m.hugr[n].op


def dec_op(w):
    import hugr._serialization.ops as sops
    return sops.OpType.model_validate(dict(w, parent=0)).root.deserialize()


def enc_op(obj):
    from hugr.hugr.node_port import Node
    d = obj._to_serial(Node(0)).model_dump(mode="json")
    d.pop("parent", None)
    return d


def _rows(rs):
    return [[proj_type(t) for t in r] for r in rs]


def _row(r):
    return [proj_type(t) for t in r]


def _fn(f):
    return proj_type(f)


def proj_op(op):
    """Decoded operation -> wire vocabulary, reading the dataclass attributes (not _to_serial)."""
    from hugr import ops
    if isinstance(op, ops.Module):
        return {"op": "Module"}
    if isinstance(op, ops.FuncDefn):
        return {"op": "FuncDefn", "name": op.f_name,
                "signature": {"params": [proj_param(p) for p in op.params],
                              "body": {"t": "G", "input": _row(op.inputs), "output": _row(op._outputs or []), "runtime_reqs": []}}}
    if isinstance(op, ops.FuncDecl):
        return {"op": "FuncDecl", "name": op.f_name, "signature": proj_poly(op.signature)}
    if isinstance(op, ops.Const):
        return {"op": "Const", "v": proj_value(op.val)}
    if isinstance(op, ops.DataflowBlock):
        return {"op": "DataflowBlock", "inputs": _row(op.inputs), "other_outputs": _row(op._other_outputs or []),
                "sum_rows": _rows(op._sum.variant_rows if op._sum is not None else []), "extension_delta": list(op.extension_delta)}
    if isinstance(op, ops.ExitBlock):
        return {"op": "ExitBlock", "cfg_outputs": _row(op._cfg_outputs or [])}
    if isinstance(op, ops.Input):
        return {"op": "Input", "types": _row(op.types)}
    if isinstance(op, ops.Output):
        return {"op": "Output", "types": _row(op._types or [])}
    if isinstance(op, ops.Call):
        return {"op": "Call", "func_sig": proj_poly(op.signature), "type_args": [proj_arg(a) for a in op.type_args],
                "instantiation": _fn(op.instantiation)}
    if isinstance(op, ops.LoadFunc):
        return {"op": "LoadFunction", "func_sig": proj_poly(op.signature), "type_args": [proj_arg(a) for a in op.type_args],
                "instantiation": _fn(op.instantiation)}
    if isinstance(op, ops.CallIndirect):
        return {"op": "CallIndirect", "signature": _fn(op._signature)}
    if isinstance(op, ops.LoadConst):
        return {"op": "LoadConstant", "datatype": proj_type(op._typ)}
    if isinstance(op, ops.DFG):
        return {"op": "DFG", "signature": {"t": "G", "input": _row(op.inputs), "output": _row(op._outputs or []),
                                           "runtime_reqs": list(op._extension_delta)}}
    if isinstance(op, ops.CFG):
        return {"op": "CFG", "signature": {"t": "G", "input": _row(op.inputs), "output": _row(op._outputs or []), "runtime_reqs": []}}
    if isinstance(op, ops.Case):
        return {"op": "Case", "signature": {"t": "G", "input": _row(op.inputs), "output": _row(op._outputs or []), "runtime_reqs": []}}
    if isinstance(op, ops.Conditional):
        return {"op": "Conditional", "other_inputs": _row(op.other_inputs), "outputs": _row(op._outputs or []),
                "sum_rows": _rows(op.sum_ty.variant_rows), "extension_delta": []}
    if isinstance(op, ops.TailLoop):
        return {"op": "TailLoop", "just_inputs": _row(op.just_inputs), "just_outputs": _row(op._just_outputs or []),
                "rest": _row(op.rest), "extension_delta": list(op.extension_delta)}
    if isinstance(op, ops.Custom):
        return {"op": "Extension", "extension": op.extension, "name": op.op_name, "signature": _fn(op.signature),
                "description": op.description, "args": [proj_arg(a) for a in op.args]}
    if isinstance(op, ops.Tag):
        return {"op": "Tag", "tag": op.tag, "variants": _rows(op.sum_ty.variant_rows)}
    if isinstance(op, ops.AliasDecl):
        return {"op": "AliasDecl", "name": op.alias, "bound": op.bound.value}
    if isinstance(op, ops.AliasDefn):
        return {"op": "AliasDefn", "name": op.alias, "definition": proj_type(op.definition)}
    return {"op": f"?{type(op).__name__}"}


def kind_json(k):
    """tys.Kind -> ["Value", type] | ["Const", type] | ["Function", poly] | ["CF"] | ["Order"]"""
    from hugr import tys
    if isinstance(k, tys.ValueKind):
        return ["Value", proj_type(k.ty)]
    if isinstance(k, tys.ConstKind):
        return ["Const", proj_type(k.ty)]
    if isinstance(k, tys.FunctionKind):
        return ["Function", proj_poly(k.ty)]
    if isinstance(k, tys.CFKind):
        return ["CF"]
    if isinstance(k, tys.OrderKind):
        return ["Order"]
    return [f"?{type(k).__name__}"]
