"""Thin conformance harness binding the TLA+ specifications in /verif/spec to hugr-py in /repo."""
