"""Shared plumbing: check context, evidence, violations / replay files, known findings."""
from __future__ import annotations

import hashlib
import json
import os
import re
import sys
import time
from pathlib import Path

from .tlc import VERIF, MachineryError, TLCResult

REPO = Path(os.environ.get("VERIF_REPO", "/repo"))
EVID = VERIF / "evidence"
REPLAYS = EVID / "replays"
KNOWN = VERIF / "known_findings.json"


def repo_on_path() -> None:
    """Import hugr from the working tree of /repo (never from an installed copy)."""
    src = str(REPO / "hugr-py" / "src")
    if src not in sys.path:
        sys.path.insert(0, src)
    sys.dont_write_bytecode = True


def jhash(x) -> str:
    return hashlib.sha1(json.dumps(x, sort_keys=True, default=str).encode()).hexdigest()[:12]


def load_known() -> list:
    if not KNOWN.exists():
        return []
    return json.loads(KNOWN.read_text())["findings"]


class Ctx:
    """One run of one property's check."""

    def __init__(self, pid: str, tier: str, seed: int, level: str = "model_checking"):
        self.pid, self.tier, self.seed, self.level = pid, tier, seed, level
        self.t0 = time.time()
        self.states = 0
        self.transitions = 0
        self.traces = 0
        self.evaluations = 0
        self.nontrivial: set = set()
        self.samples: list = []
        self.rule = ""
        self.assumptions: list = []
        self.extra: dict = {}
        self.legs: dict = {}
        self.violations: list = []
        self.known_hits: dict = {}
        self.exhaustive = False
        self._known = [k for k in load_known() if k.get("property") == pid and k.get("status") == "known"]
        self._seen_sig: set = set()
        import shutil
        shutil.rmtree(REPLAYS / pid, ignore_errors=True)     # replay files always belong to the latest run

    # ---- coverage accounting
    def add_tlc(self, name: str, res: TLCResult) -> None:
        self.states += res.distinct
        self.transitions += max(res.generated - 0, 0)
        self.legs[name] = {"states": res.distinct, "generated": res.generated, "depth": res.depth,
                           "wall_s": round(res.wall_s, 2), "lines": len(res.lines) if res.lines else None,
                           "coverage": {k: list(v) for k, v in sorted(res.coverage.items())} or None}

    def note(self, key: str, val) -> None:
        self.extra[key] = val

    def sample(self, x, limit: int = 4) -> None:
        if len(self.samples) < limit:
            self.samples.append(x)

    def nontriv(self, key) -> None:
        self.nontrivial.add(key if isinstance(key, (str, int)) else jhash(key))

    # ---- violations
    def _match_known(self, sig: dict):
        for k in self._known:
            if all(re.fullmatch(str(pat), str(sig.get(f, ""))) for f, pat in k["match"].items()):
                return k
        return None

    def violation(self, sig: dict, case, expected=None, observed=None, clause: str = "", leg: str = "S2C") -> bool:
        """Record a disagreement. Returns True if it is a *new* violation (not a listed known finding)."""
        k = self._match_known(sig)
        if k is not None:
            self.known_hits.setdefault(k["id"], {"entry": k, "count": 0})["count"] += 1
            return False
        key = jhash(sig)
        if key in self._seen_sig and len(self.violations) >= 5:
            self.violations.append(None)  # counted only
            return True
        self._seen_sig.add(key)
        d = REPLAYS / self.pid
        d.mkdir(parents=True, exist_ok=True)
        body = {"property": self.pid, "leg": leg, "sig": sig, "case": case, "expected": expected,
                "observed": observed, "clause": clause, "seed": self.seed, "tier": self.tier}
        p = d / f"{jhash(body)}.json"
        p.write_text(json.dumps(body, indent=1, default=str))
        self.violations.append(str(p))
        return True

    # ---- end of run
    def finish(self) -> int:
        wall = time.time() - self.t0
        nviol = len(self.violations)
        cov = {
            "states": self.states, "transitions": self.transitions,
            "traces_validated_against_impl": self.traces,
            "evaluations": self.evaluations, "distinct_nontrivial": len(self.nontrivial),
            "rule": self.rule, "samples": self.samples or [{"note": "no samples recorded"}],
            "exhaustive": self.exhaustive, "legs": self.legs,
            "known_findings_hit": {i: h["count"] for i, h in self.known_hits.items()},
        }
        cov.update(self.extra)
        ev = {"property_id": self.pid, "tier": self.tier, "seed": self.seed, "level": self.level,
              "coverage": cov, "assumptions": self.assumptions, "wall_s": round(wall, 2), "violations": nviol}
        EVID.mkdir(exist_ok=True)
        (EVID / f"{self.pid}.json").write_text(json.dumps(ev, indent=1, default=str) + "\n")
        for i, h in sorted(self.known_hits.items()):
            print(f"KNOWN-FINDING: property={self.pid} {i}: {h['entry']['what']} (hit {h['count']}x)")
        shown = [v for v in self.violations if v][:5]
        for v in shown:
            print(f"VIOLATION property={self.pid} replay={v}")
        print(f"[{self.pid}] tier={self.tier} seed={self.seed} states={self.states} transitions={self.transitions} "
              f"traces={self.traces} evaluations={self.evaluations} nontrivial={len(self.nontrivial)} "
              f"violations={nviol} wall={wall:.1f}s")
        return 1 if nviol else 0


def tlc_must_hold(ctx: Ctx, name: str, res: TLCResult, what: str) -> None:
    """Leg M: a TLC run over the specification must report no error. A violated invariant *of the
    specification itself* means the model or the property transcription is wrong -> machinery error."""
    ctx.add_tlc(name, res)
    if res.violated is not None:
        raise MachineryError(f"{what}: specification violates {res.violated}\n{res.stdout[-3000:]}")
    if res.exit_code != 0:
        raise MachineryError(f"{what}: TLC exit {res.exit_code}\n{res.error_text}")
