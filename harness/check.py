"""CLI: ./check C18 [--tier quick|thorough] [--replay FILE]"""
from __future__ import annotations

import argparse
import importlib
import os
import sys
import traceback

from .common import Ctx, repo_on_path
from .tlc import MachineryError


def main() -> int:
    ap = argparse.ArgumentParser()
    ap.add_argument("prop")
    ap.add_argument("--tier", default=os.environ.get("VERIF_TIER", "quick"), choices=["quick", "thorough"])
    ap.add_argument("--replay", default=None)
    a = ap.parse_args()
    seed = int(os.environ.get("VERIF_SEED", "0") or 0)
    pid = a.prop.upper()
    repo_on_path()
    try:
        mod = importlib.import_module(f"harness.props.{pid.lower()}")
    except ModuleNotFoundError as e:
        print(f"no check for {pid}: {e}", file=sys.stderr)
        return 2
    try:
        if a.replay:
            return mod.replay(a.replay)
        ctx = Ctx(pid, a.tier, seed, level=getattr(mod, "LEVEL", "model_checking"))
        mod.run(ctx)
        return ctx.finish()
    except MachineryError as e:
        print(f"MACHINERY-ERROR property={pid}: {e}", file=sys.stderr)
        return 2
    except Exception:
        traceback.print_exc()
        print(f"MACHINERY-ERROR property={pid}: unexpected exception in harness", file=sys.stderr)
        return 2


if __name__ == "__main__":
    sys.exit(main())
