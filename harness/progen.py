"""Random well-formed builder programs (DESIGN Appendix D): the C->S driver for C01 (and C02, C03, C12, C16, C20).

The generator keeps its own type book-keeping (it never asks the implementation what a wire's type is), consumes every
linear value exactly once, wires every input once, only takes non-local wires that are copyable and come from an enclosing
region (Ext) or from a dominating block (Dom), and closes every builder -- so the premise of C01 holds by construction.
It records a ledger of the wires it requested.  Every public builder entry point named by C01 is in the alphabet."""
from __future__ import annotations

import random
from dataclasses import dataclass, field

LIN = {"Q", "TBQ", "EQB"}


def _tys():
    from hugr import tys
    from hugr.std.int import INT_T
    return {"B": tys.Bool, "U": tys.Unit, "Q": tys.Qubit, "I": INT_T, "TBQ": tys.Tuple(tys.Bool, tys.Qubit), "OB": tys.Option(tys.Bool),
            "F": tys.FunctionType([tys.Bool], [tys.Bool]), "EQB": tys.Either([tys.Qubit], [tys.Bool]), "Z": tys.USize()}


@dataclass
class W:
    port: object
    tag: str
    used: bool = False


@dataclass
class Scope:
    b: object                      # builder
    wires: list = field(default_factory=list)
    parent: "Scope | None" = None
    depth: int = 0
    nodes: list = field(default_factory=list)      # non-IO sibling nodes created in this scope, in creation order
    dom: list = field(default_factory=list)        # scopes of dominating blocks (for Dom wires)
    in_func: bool = False


class Gen:
    def __init__(self, seed: int, size: int = 30, max_depth: int = 4):
        from hugr import ops, tys, val
        self.rng = random.Random(seed)
        self.size = size
        self.max_depth = max_depth
        self.T = _tys()
        self.ops, self.tys, self.val = ops, tys, val
        self.budget = size
        self.ledger: list = []
        self.calls: list = []          # names of the builder entry points used
        self.funcs: list = []          # (node, in tags, out tags, poly?)
        self.features: set = set()
        self.handles: list = []        # (description, handle, expected number of outputs)

    # ------------------------------------------------------------------ primitives
    def cust(self, name, ins, outs):
        T = self.T
        return self.ops.Custom(name, self.tys.FunctionType([T[i] for i in ins], [T[o] for o in outs]), "", "verif.q", [])

    def _note(self, what):
        self.calls.append(what)

    def add_op(self, sc: Scope, op, args: list, outs: list, how: str = "add_op", meta=None):
        """args: list of W (marked used if linear); outs: output tags"""
        ports = [a.port for a in args]
        if how == "add_op":
            n = sc.b.add_op(op, *ports, metadata=meta)
        elif how == "add":
            n = sc.b.add(op(*ports), metadata=meta)
        else:
            (n,) = sc.b.extend(op(*ports))
        self._note(how)
        for i, a in enumerate(args):
            self.ledger.append((n.idx, i, a.port.node.idx, a.port.offset))
            if a.tag in LIN:
                assert not a.used, "generator bug: linear wire used twice"
                a.used = True
        sc.nodes.append(n)
        self.handles.append((f"{how}:{type(op).__name__}", n, len(outs)))
        new = [W(n.out(i), t) for i, t in enumerate(outs)]
        sc.wires.extend(new)
        self.budget -= 1
        return n, new

    def avail(self, sc: Scope, tag: str, local_only: bool = False):
        """an unused/copyable wire of the given type: local first, then (copyable only) enclosing regions / dominating blocks"""
        loc = [w for w in sc.wires if w.tag == tag and not (tag in LIN and w.used)]
        if loc and (tag in LIN or self.rng.random() < 0.8):
            return self.rng.choice(loc)
        if tag in LIN or local_only:
            return None
        cands = []
        p = sc.parent
        inf = sc.in_func
        s = sc
        while p is not None:
            if getattr(s, "is_func_root", False):
                break                                  # never reach out of a function body
            cands += [w for w in p.wires if w.tag == tag]
            s, p = p, p.parent
        for d in sc.dom:
            cands += [w for w in d.wires if w.tag == tag]
        if cands and self.rng.random() < 0.6:
            w = self.rng.choice(cands)
            self.features.add("nonlocal-wire")
            return w
        return self.rng.choice(loc) if loc else None

    def produce(self, sc: Scope, tag: str) -> W:
        w = self.avail(sc, tag)
        if w is not None:
            return w
        ops, val, T = self.ops, self.val, self.T
        r = self.rng.random()
        if tag == "B":
            if r < 0.5:
                return self.load(sc, val.TRUE if r < 0.25 else val.FALSE, "B")
            x = self.produce(sc, "B") if any(w.tag == "B" for w in sc.wires) else self.load(sc, val.TRUE, "B")
            from hugr.std.logic import Not
            return self.add_op(sc, Not, [x], ["B"], how=self.rng.choice(["add_op", "add", "extend"]))[1][0]
        if tag == "U":
            return self.load(sc, val.Unit, "U")
        if tag == "I":
            from hugr.std.int import IntVal
            return self.load(sc, IntVal(self.rng.randint(0, 9), 5), "I")
        if tag == "Z":
            return self.add_op(sc, self.cust("mk_usize", [], ["Z"]), [], ["Z"])[1][0]
        if tag == "Q":
            return self.add_op(sc, self.cust("QAlloc", [], ["Q"]), [], ["Q"])[1][0]
        if tag == "TBQ":
            return self.add_op(sc, ops.MakeTuple(), [self.produce(sc, "B"), self.produce(sc, "Q")], ["TBQ"])[1][0]
        if tag == "OB":
            if r < 0.5:
                return self.load(sc, val.None_(T["B"]) if r < 0.25 else val.Some(val.TRUE), "OB")
            return self.add_op(sc, ops.Some(T["B"]), [self.produce(sc, "B")], ["OB"])[1][0]
        if tag == "EQB":
            if r < 0.5:
                return self.add_op(sc, ops.Left(T["EQB"]), [self.produce(sc, "Q")], ["EQB"])[1][0]
            return self.add_op(sc, ops.Right(T["EQB"]), [self.produce(sc, "B")], ["EQB"])[1][0]
        if tag == "F":
            fs = [f for f in self.funcs if f[1] == ["B"] and f[2] == ["B"] and not f[3]]
            if fs and r < 0.6 and sc.b.hugr is getattr(self, "root_hugr", None):
                f = self.rng.choice(fs)
                n = sc.b.load_function(f[0])
                self._note("load_function")
                sc.nodes.append(n)
                w = W(n.out(0), "F")
                sc.wires.append(w)
                self.budget -= 1
                return w
            from hugr.build.dfg import Dfg
            from hugr.std.logic import Not
            d = Dfg(T["B"])
            d.set_outputs(d.add_op(Not, d.inputs()[0]))
            return self.load(sc, val.Function(d.hugr), "F")
        raise AssertionError(tag)

    def load(self, sc: Scope, v, tag: str) -> W:
        r = self.rng.random()
        if r < 0.25 and sc.parent is not None and not getattr(sc, "is_func_root", False):
            # constant defined in the enclosing region, loaded here (non-local static edge)
            c = sc.parent.b.add_const(v, parent=sc.parent.b.parent_node)
            n = sc.b.load(c)
            self.features.add("nonlocal-const")
        else:
            n = sc.b.load(v)
        self._note("load")
        sc.nodes.append(n)
        self.handles.append(("load", n, 1))
        w = W(n.out(0), tag)
        sc.wires.append(w)
        self.budget -= 1
        return w

    def consume(self, sc: Scope, w: W):
        """get rid of a linear value"""
        ops = self.ops
        if w.tag == "Q":
            self.add_op(sc, self.cust("QFree", ["Q"], []), [w], [])
        elif w.tag == "TBQ":
            _, (b, q) = self.add_op(sc, ops.UnpackTuple(), [w], ["B", "Q"])
            self.consume(sc, q)
        elif w.tag == "EQB":
            self.conditional(sc, w, [], force_out=[])
        else:
            raise AssertionError(w.tag)

    def close_linear(self, sc: Scope, keep: list):
        for w in list(sc.wires):
            if w.tag in LIN and not w.used and w not in keep:
                self.consume(sc, w)

    # ------------------------------------------------------------------ actions in a dataflow scope
    def leaf(self, sc: Scope):
        ops = self.ops
        from hugr.std.int import DivMod
        from hugr.std.logic import Not
        table = [(Not, ["B"], ["B"]), (self.cust("H", ["Q"], ["Q"]), ["Q"], ["Q"]), (self.cust("CX", ["Q", "Q"], ["Q", "Q"]), ["Q", "Q"], ["Q", "Q"]),
                 (self.cust("Measure", ["Q"], ["Q", "B"]), ["Q"], ["Q", "B"]), (DivMod, ["I", "I"], ["I", "I"]),
                 (ops.MakeTuple(), ["B", "Q"], ["TBQ"]), (ops.UnpackTuple(), ["TBQ"], ["B", "Q"]), (ops.Some(self.T["B"]), ["B"], ["OB"]),
                 (ops.Noop(), None, None), (ops.CallIndirect(), ["F", "B"], ["B"]), (self.cust("Rz", ["Q", "I"], ["Q"]), ["Q", "I"], ["Q"])]
        op, ins, outs = self.rng.choice(table)
        if ins is None:
            t = self.rng.choice(["B", "Q", "I", "OB", "F", "U"])
            ins, outs = [t], [t]
        args = []
        for t in ins:
            w = self.produce(sc, t)
            if t in LIN:
                w.used = True           # reserve (add_op re-checks through a fresh flag)
            args.append(w)
        for a in args:
            if a.tag in LIN:
                a.used = False
        if len({id(a) for a in args if a.tag in LIN}) < sum(1 for a in args if a.tag in LIN):
            return
        meta = {"note": "m", "n": [1, None]} if self.rng.random() < 0.15 else None
        if meta:
            self.features.add("metadata")
        how = self.rng.choice(["add_op", "add_op", "add", "extend"]) if meta is None else self.rng.choice(["add_op", "add"])
        n, new = self.add_op(sc, op, args, outs, how=how, meta=meta)
        if len(outs) >= 2:
            self.features.add("multi-output")

    def state_order(self, sc: Scope):
        if len(sc.nodes) >= 2:
            i = self.rng.randrange(len(sc.nodes) - 1)
            j = self.rng.randrange(i + 1, len(sc.nodes))
            a, b = sc.nodes[i], sc.nodes[j]
            kinds = (type(sc.b.hugr[a].op).__name__, type(sc.b.hugr[b].op).__name__)
            if "Const" in kinds or "FuncDefn" in kinds:
                return
            sc.b.add_state_order(a, b)
            self._note("add_state_order")
            self.features.add("explicit-order")

    def pick_inputs(self, sc: Scope, kmax: int = 3):
        k = self.rng.randint(0, kmax)
        cands = [w for w in sc.wires if not (w.tag in LIN and w.used)]
        self.rng.shuffle(cands)
        return cands[:k]

    def child_scope(self, sc: Scope, b, in_tags: list, **kw) -> Scope:
        c = Scope(b, [W(p, t) for p, t in zip(b.inputs(), in_tags)], parent=sc, depth=sc.depth + 1, in_func=sc.in_func)
        for k, v in kw.items():
            setattr(c, k, v)
        return c

    def fill(self, sc: Scope, n: int):
        for _ in range(n):
            if self.budget <= 0:
                return
            r = self.rng.random()
            if r < 0.50 or sc.depth >= self.max_depth:
                self.leaf(sc)
            elif r < 0.62:
                self.nested(sc)
            elif r < 0.72:
                ws = [w for w in sc.wires if w.tag in ("B", "OB", "EQB") and not (w.tag in LIN and w.used)]
                cw = self.rng.choice(ws) if ws and self.rng.random() < 0.7 else self.produce(sc, self.rng.choice(["B", "OB", "EQB"]))
                self.conditional(sc, cw, [w for w in self.pick_inputs(sc, 2) if w is not cw])
            elif r < 0.80:
                self.tail_loop(sc)
            elif r < 0.88:
                self.cfg(sc)
            elif r < 0.95:
                self.call(sc)
            else:
                self.state_order(sc)

    def finish_outputs(self, sc: Scope, want: list | None):
        """choose/produce the output wires of a scope, consuming all other linear values; returns (wires, tags)"""
        if want is None:
            cands = [w for w in sc.wires if not (w.tag in LIN and w.used)]
            self.rng.shuffle(cands)
            outs = cands[: self.rng.randint(0, 3)]
            outs += [w for w in sc.wires if w.tag in LIN and not w.used and w not in outs and self.rng.random() < 0.5]
        else:
            outs = []
            for t in want:
                w = self.avail(sc, t, local_only=(t in LIN))
                if w is None or (w in outs and t in LIN):
                    w = self.produce(sc, t)
                    if w in outs and t in LIN:
                        w = self.add_op(sc, self.cust("QAlloc", [], ["Q"]), [], ["Q"])[1][0] if t == "Q" else self._fresh_lin(sc, t)
                if t in LIN:
                    w.used = True
                outs.append(w)
            for w in outs:
                if w.tag in LIN:
                    w.used = False
        self.close_linear(sc, outs)
        for i, w in enumerate(outs):
            if w.tag in LIN:
                w.used = True
        return outs, [w.tag for w in outs]

    def _fresh_lin(self, sc, t):
        if t == "TBQ":
            q = self.add_op(sc, self.cust("QAlloc", [], ["Q"]), [], ["Q"])[1][0]
            return self.add_op(sc, self.ops.MakeTuple(), [self.produce(sc, "B"), q], ["TBQ"])[1][0]
        q = self.add_op(sc, self.cust("QAlloc", [], ["Q"]), [], ["Q"])[1][0]
        return self.add_op(sc, self.ops.Left(self.T["EQB"]), [q], ["EQB"])[1][0]

    def _ledger_args(self, node, args):
        for i, a in enumerate(args):
            self.ledger.append((node.idx, i, a.port.node.idx, a.port.offset))
            if a.tag in LIN:
                assert not a.used
                a.used = True

    def nested(self, sc: Scope):
        from hugr.build.dfg import Dfg
        from hugr.build.tracked_dfg import TrackedDfg
        ins = self.pick_inputs(sc)
        tags = [w.tag for w in ins]
        mode = self.rng.choice(["add_nested", "add_nested", "insert_nested", "insert_tracked", "insert_tracked_mixed"])
        if mode == "insert_tracked_mixed":
            return self.tracked_mixed(sc)
        if mode == "add_nested":
            b = sc.b.add_nested(*[w.port for w in ins])
            self._note("add_nested")
            self._ledger_args(b.parent_node, ins)
            c = self.child_scope(sc, b, tags)
            half = self.rng.randint(0, 3)
            self.fill(c, half)
            if self.rng.random() < 0.4:
                self.leaf(sc)                       # interleave: the parent goes on while the child is open
                self.features.add("interleaved")
            self.fill(c, self.rng.randint(0, 3))
            outs, otags = self.finish_outputs(c, None)
            b.set_outputs(*[w.port for w in outs])
            self._note("set_outputs")
            node = b.parent_node
        else:
            T = self.T
            if mode == "insert_tracked":
                b = TrackedDfg(*[T[t] for t in tags], track_inputs=True)
                c = Scope(b, [W(p, t) for p, t in zip(b.inputs(), tags)], parent=None, depth=sc.depth + 1)
                from hugr.std.logic import Not
                for idx, t in enumerate(tags):
                    if t == "B" and self.rng.random() < 0.7:
                        n = b.add(Not(idx))
                        self._note("TrackedDfg.add")
                        c.wires[idx] = W(n.out(0), "B")
                    elif t == "Q" and self.rng.random() < 0.7:
                        n = b.add(self.cust("H", ["Q"], ["Q"])(idx))
                        self._note("TrackedDfg.add")
                        c.wires[idx] = W(n.out(0), "Q")
                self.features.add("tracked")
                b.set_tracked_outputs()
                self._note("set_tracked_outputs")
                otags = list(tags)
            else:
                b = Dfg(*[T[t] for t in tags])
                c = Scope(b, [W(p, t) for p, t in zip(b.inputs(), tags)], parent=None, depth=sc.depth + 1)
                self.fill(c, self.rng.randint(0, 3))
                outs, otags = self.finish_outputs(c, None)
                b.set_outputs(*[w.port for w in outs])
                self._note("set_outputs")
            node = sc.b.insert_nested(b, *[w.port for w in ins])
            self._note("insert_nested")
            self._ledger_args(node, ins)
            self.features.add("insert")
        sc.nodes.append(node)
        self.handles.append((mode, node, len(otags)))
        sc.wires.extend(W(node.out(i), t) for i, t in enumerate(otags))
        self.budget -= 1
        self.features.add("nested-dfg")

    def tracked_mixed(self, sc: Scope):
        """a tracked builder used with commands that mix explicit wires and integer indices on multi-output ops"""
        from hugr.build.tracked_dfg import TrackedDfg
        T = self.T
        q1, q2 = self.produce(sc, "Q"), None
        q1.used = True
        q2 = self.produce(sc, "Q")
        q1.used = False
        if q2 is q1:
            return
        b = TrackedDfg(T["Q"], T["Q"])
        i0, i1 = b.inputs()
        idx = b.track_wire(i1)                       # index 0 denotes the second input
        self._note("track_wire")
        n = b.add(self.cust("CX", ["Q", "Q"], ["Q", "Q"])(i0, idx))      # explicit wire first, index second: index re-bound to out(1)
        self._note("TrackedDfg.add")
        m = b.add(self.cust("H", ["Q"], ["Q"])(idx))                       # consumes CX.out(1) through the index
        if self.rng.random() < 0.5:
            k2 = b.track_wire(n.out(0))
            b.add(self.cust("Measure", ["Q"], ["Q", "B"])(k2))              # multi-output, index at position 0
            b.set_tracked_outputs()
            self._note("set_tracked_outputs")
        else:
            b.set_indexed_outputs(n.out(0), idx)
            self._note("set_indexed_outputs")
        node = sc.b.insert_nested(b, q1.port, q2.port)
        self._note("insert_nested")
        self._ledger_args(node, [q1, q2])
        sc.nodes.append(node)
        self.handles.append(("insert_tracked_mixed", node, 2))
        sc.wires.extend([W(node.out(0), "Q"), W(node.out(1), "Q")])
        self.budget -= 1
        self.features.update({"tracked", "tracked-mixed", "insert", "nested-dfg"})

    def conditional(self, sc: Scope, cw: W, others: list, force_out: list | None = None):
        from hugr.build.cond_loop import Conditional
        T = self.T
        variants = {"B": [[], []], "OB": [[], ["B"]], "EQB": [["Q"], ["B"]]}[cw.tag]
        otags = [w.tag for w in others]
        if force_out is not None:
            out_row = list(force_out)
        else:
            out_row = list(otags) + (["B"] if self.rng.random() < 0.5 else [])
            if self.rng.random() < 0.3:
                out_row = [t for t in out_row if t not in LIN or True]
        mode = self.rng.choice(["add_conditional", "insert_conditional", "add_if"]) if cw.tag == "B" else self.rng.choice(["add_conditional", "insert_conditional"])
        args = [cw, *others]
        if mode == "insert_conditional":
            cb = Conditional(T[cw.tag], [T[t] for t in otags])
            host = None
        elif mode == "add_conditional":
            cb = sc.b.add_conditional(cw.port, *[w.port for w in others])
            self._note("add_conditional")
            self._ledger_args(cb.parent_node, args)
            host = sc
        if mode == "add_if":
            ifb = sc.b.add_if(cw.port, *[w.port for w in others])
            self._note("add_if")
            c1 = self.child_scope(sc, ifb, variants[1] + otags)
            self.fill(c1, self.rng.randint(0, 2))
            outs, _ = self.finish_outputs(c1, out_row)
            ifb.set_outputs(*[w.port for w in outs])
            elb = ifb.add_else()
            self._note("add_else")
            c0 = self.child_scope(sc, elb, variants[0] + otags)
            self.fill(c0, self.rng.randint(0, 2))
            outs, _ = self.finish_outputs(c0, out_row)
            elb.set_outputs(*[w.port for w in outs])
            node = elb.conditional_node
            self._ledger_args(node, args)
        else:
            order = list(range(len(variants)))
            self.rng.shuffle(order)
            for i in order:
                case = cb.add_case(i)
                c = self.child_scope(host, case, variants[i] + otags) if host else Scope(case, [W(p, t) for p, t in zip(case.inputs(), variants[i] + otags)], None, sc.depth + 1)
                self.fill(c, self.rng.randint(0, 2))
                outs, _ = self.finish_outputs(c, out_row)
                case.set_outputs(*[w.port for w in outs])
            if mode == "insert_conditional":
                node = sc.b.insert_conditional(cb, cw.port, *[w.port for w in others])
                self._note("insert_conditional")
                self._ledger_args(node, args)
                self.features.add("insert")
            else:
                node = cb.parent_node
        sc.nodes.append(node)
        self.handles.append((mode, node, len(out_row)))
        sc.wires.extend(W(node.out(i), t) for i, t in enumerate(out_row))
        self.budget -= 1
        self.features.add("conditional")

    def tail_loop(self, sc: Scope):
        from hugr.build.cond_loop import TailLoop
        T = self.T
        just_in = self.rng.choice([[], ["B"], ["I"]])
        just_out = self.rng.choice([[], ["B"], ["I", "B"]])
        rest = [w for w in self.pick_inputs(sc, 2)]
        jin = [self.produce(sc, t) for t in just_in]
        rest = [w for w in rest if w not in jin]
        rtags = [w.tag for w in rest]
        mode = self.rng.choice(["add_tail_loop", "insert_tail_loop"])
        if mode == "add_tail_loop":
            tl = sc.b.add_tail_loop([w.port for w in jin], [w.port for w in rest])
            self._note("add_tail_loop")
            self._ledger_args(tl.parent_node, jin + rest)
            c = self.child_scope(sc, tl, just_in + rtags)
        else:
            tl = TailLoop([T[t] for t in just_in], [T[t] for t in rtags])
            c = Scope(tl, [W(p, t) for p, t in zip(tl.inputs(), just_in + rtags)], None, sc.depth + 1)
        self.fill(c, self.rng.randint(0, 3))
        ctrl = self.tys.Either([T[t] for t in just_in], [T[t] for t in just_out])
        if self.rng.random() < 0.5:
            vals = [self.produce(c, t) for t in just_out]
            _, (sw,) = self.add_op(c, self.ops.Break(ctrl), vals, ["CTRL"])
        else:
            vals = [self.produce(c, t) for t in just_in]
            _, (sw,) = self.add_op(c, self.ops.Continue(ctrl), vals, ["CTRL"])
        outs, _ = self.finish_outputs(c, rtags)
        tl.set_loop_outputs(sw.port, *[w.port for w in outs])
        self._note("set_loop_outputs")
        if mode == "insert_tail_loop":
            node = sc.b.insert_tail_loop(tl, [w.port for w in jin], [w.port for w in rest])
            self._note("insert_tail_loop")
            self._ledger_args(node, jin + rest)
            self.features.add("insert")
        else:
            node = tl.parent_node
        sc.nodes.append(node)
        self.handles.append((mode, node, len(just_out) + len(rtags)))
        sc.wires.extend(W(node.out(i), t) for i, t in enumerate(just_out + rtags))
        self.budget -= 1
        self.features.add("tail-loop")

    def cfg(self, sc: Scope):
        from hugr.build.cfg import Cfg
        T = self.T
        ins = self.pick_inputs(sc, 2)
        tags = [w.tag for w in ins]
        mode = self.rng.choice(["add_cfg", "insert_cfg"])
        if mode == "add_cfg":
            cfg = sc.b.add_cfg(*[w.port for w in ins])
            self._note("add_cfg")
            self._ledger_args(cfg.parent_node, ins)
            host = sc
        else:
            cfg = Cfg(*[T[t] for t in tags])
            host = None
        shape = self.rng.choice(["chain", "diamond", "loop", "nested"])

        def blk(b, in_tags, dom):
            return Scope(b, [W(p, t) for p, t in zip(b.inputs(), in_tags)], parent=host, depth=sc.depth + 1, dom=dom, in_func=sc.in_func)
        entry = cfg.add_entry()
        e = blk(entry, tags, [])
        self.fill(e, self.rng.randint(0, 2))
        shared = self.produce(e, "B") if self.rng.random() < 0.7 else None      # a copyable value later blocks may use (Dom wire)
        if shape == "chain" or shape == "nested":
            row = tags
            outs, _ = self.finish_outputs(e, row)
            entry.set_single_succ_outputs(*[w.port for w in outs])
            self._note("set_single_succ_outputs")
            b1 = cfg.add_successor(entry[0])
            self._note("add_successor")
            s1 = blk(b1, row, [e])
            self.fill(s1, self.rng.randint(0, 2))
            if shape == "nested" and sc.depth + 1 < self.max_depth:
                self.cfg(s1)
            if shared is not None and self.rng.random() < 0.8:
                from hugr.std.logic import Not
                s1.wires.append(self.add_op(s1, Not, [shared], ["B"])[1][0])
                self.features.add("dom-wire")
            final = row + (["B"] if self.rng.random() < 0.5 else [])
            outs, _ = self.finish_outputs(s1, final)
            b1.set_single_succ_outputs(*[w.port for w in outs])
            cfg.branch_exit(b1[0])
            self._note("branch_exit")
        elif shape == "diamond":
            row = tags
            outs, _ = self.finish_outputs(e, row)
            br = self.produce(e, self.rng.choice(["B", "OB"]))
            vr = {"B": [[], []], "OB": [[], ["B"]]}[br.tag]
            entry.set_block_outputs(br.port, *[w.port for w in outs])
            self._note("set_block_outputs")
            mid = row + (["I"] if self.rng.random() < 0.5 else [])
            blocks = []
            for i in (0, 1):
                bi = cfg.add_successor(entry[i])
                si = blk(bi, vr[i] + row, [e])
                self.fill(si, self.rng.randint(0, 2))
                o, _ = self.finish_outputs(si, mid)
                bi.set_single_succ_outputs(*[w.port for w in o])
                blocks.append(bi)
            merge = cfg.add_successor(blocks[0][0])
            cfg.branch(blocks[1][0], merge)
            self._note("branch")
            sm = blk(merge, mid, [e])
            if shared is not None:
                from hugr.std.logic import Not
                sm.wires.append(self.add_op(sm, Not, [shared], ["B"])[1][0])
                self.features.add("dom-wire")
            self.fill(sm, self.rng.randint(0, 2))
            final = mid
            o, _ = self.finish_outputs(sm, final)
            merge.set_single_succ_outputs(*[w.port for w in o])
            cfg.branch_exit(merge[0])
            self._note("branch_exit")
        else:  # loop: entry -> body; body branches back to itself or to the exit
            row = tags
            outs, _ = self.finish_outputs(e, row)
            entry.set_single_succ_outputs(*[w.port for w in outs])
            body = cfg.add_successor(entry[0])
            sb = blk(body, row, [e])
            self.fill(sb, self.rng.randint(0, 2))
            o, _ = self.finish_outputs(sb, row)
            br = self.produce(sb, "B")
            body.set_block_outputs(br.port, *[w.port for w in o])
            cfg.branch(body[0], body)
            cfg.branch_exit(body[1])
            self._note("branch")
            final = row
        if mode == "insert_cfg":
            node = sc.b.insert_cfg(cfg, *[w.port for w in ins])
            self._note("insert_cfg")
            self._ledger_args(node, ins)
            self.features.add("insert")
        else:
            node = cfg.parent_node
        sc.nodes.append(node)
        self.handles.append((mode, node, len(final)))
        sc.wires.extend(W(node.out(i), t) for i, t in enumerate(final))
        self.budget -= 1
        self.features.add("cfg:" + shape)

    def call(self, sc: Scope):
        if not self.funcs or sc.b.hugr is not getattr(self, "root_hugr", None):
            return                      # functions live in the module's HUGR; stand-alone builders cannot call them
        f = self.rng.choice(self.funcs)
        node, ins, outs, poly = f
        if poly == "row":
            # row-polymorphic callee forall R:[Type]. R -> R, instantiated at a row of length 0, 2 or 3 (never the body's arity 1)
            row = self.rng.choice([[], ["B", "Q"], ["B", "B"], ["I", "B", "Q"]])
            args = []
            for t in row:
                w = self.produce(sc, t)
                if t in LIN and w in args:
                    return
                args.append(w)
            T = self.T
            n = sc.b.call(node, *[a.port for a in args], instantiation=self.tys.FunctionType.endo([T[t] for t in row]),
                          type_args=[self.tys.SequenceArg([T[t].type_arg() for t in row])])
            self._ledger_args(n, args)
            outs = list(row)
            self.features.add("row-poly-call")
        elif poly:
            t = self.rng.choice(["B", "Q", "I"])
            arg = self.produce(sc, t)
            T = self.T
            n = sc.b.call(node, arg.port, instantiation=self.tys.FunctionType.endo([T[t]]), type_args=[T[t].type_arg()])
            self._ledger_args(n, [arg])
            outs = [t]
            self.features.add("poly-call")
        else:
            args = []
            for t in ins:
                w = self.produce(sc, t)
                if t in LIN and w in args:
                    return
                args.append(w)
            n = sc.b.call(node, *[a.port for a in args])
            self._ledger_args(n, args)
        self._note("call")
        sc.nodes.append(n)
        self.handles.append(("call", n, len(outs)))
        sc.wires.extend(W(n.out(i), t) for i, t in enumerate(outs))
        self.budget -= 1
        self.features.add("call")

    # ------------------------------------------------------------------ whole programs
    def module(self):
        from hugr.build.function import Module
        T = self.T
        m = Module()
        self.root_hugr = m.hugr
        root = Scope(m, [], None, 0)
        self._note("Module")
        # a declared polymorphic function and a few defined ones
        if self.rng.random() < 0.7:
            sig = self.tys.PolyFuncType([self.tys.TypeTypeParam(self.tys.TypeBound.Any)],
                                        self.tys.FunctionType.endo([self.tys.Variable(0, self.tys.TypeBound.Any)]))
            d = m.declare_function("poly_id", sig)
            self._note("declare_function")
            self.funcs.append((d, ["?"], ["?"], True))
        if self.rng.random() < 0.6:
            rv = self.tys.RowVariable(0, self.tys.TypeBound.Any)
            d = m.declare_function("poly_row", self.tys.PolyFuncType([self.tys.ListParam(self.tys.TypeTypeParam(self.tys.TypeBound.Any))],
                                                                     self.tys.FunctionType.endo([rv])))
            self._note("declare_function")
            self.funcs.append((d, ["?"], ["?"], "row"))
        nf = self.rng.randint(1, 3)
        for k in range(nf):
            ins = [self.rng.choice(["B", "Q", "I", "B"]) for _ in range(self.rng.randint(0, 2))]
            if k == 0 and self.rng.random() < 0.6:
                ins = ["B"]
            declared = None
            if self.rng.random() < 0.4 or (k == 0 and ins == ["B"]):
                declared = ["B"] if ins == ["B"] else [t for t in ins if t in LIN]
            f = m.define_function(f"f{k}", [T[t] for t in ins], [T[t] for t in declared] if declared is not None else None)
            self._note("define_function")
            fs = Scope(f, [W(p, t) for p, t in zip(f.inputs(), ins)], None, 1, in_func=True)
            fs.is_func_root = True
            if declared is not None and self.rng.random() < 0.5:
                self.funcs.append((f.parent_node, ins, declared, False))        # recursion possible
                self.features.add("declared-outputs")
            per = max(2, self.size // (nf + 1))
            self.budget = per
            self.fill(fs, per)
            outs, otags = self.finish_outputs(fs, declared)
            f.set_outputs(*[w.port for w in outs])
            self._note("set_outputs")
            if not (declared is not None and (f.parent_node, ins, declared, False) in self.funcs):
                self.funcs.append((f.parent_node, ins, otags, False))
        return m.hugr

    def dfg_root(self):
        from hugr.build.dfg import Dfg
        T = self.T
        ins = [self.rng.choice(["B", "Q", "I", "OB"]) for _ in range(self.rng.randint(0, 3))]
        d = Dfg(*[T[t] for t in ins])
        sc = Scope(d, [W(p, t) for p, t in zip(d.inputs(), ins)], None, 0)
        self.fill(sc, self.size)
        outs, _ = self.finish_outputs(sc, None)
        d.set_outputs(*[w.port for w in outs])
        self._note("set_outputs")
        return d.hugr


def generate(seed: int, size: int = 30, kind: str | None = None):
    """Returns (Hugr, Gen).  kind in {None (random), 'module', 'dfg'}"""
    g = Gen(seed, size)
    k = kind or ("module" if g.rng.random() < 0.7 else "dfg")
    h = g.module() if k == "module" else g.dfg_root()
    g.kind = k
    return h, g
