"""Adapter binding HugrStore.tla actions to real hugr.Hugr objects (two stores), and the projection of the
real stores into the vocabulary of HugrStore!Obs.  Every public query named by C04 is exercised in project()."""
from __future__ import annotations

from collections import Counter

from .tlc import MachineryError


class ImplError(Exception):
    """The implementation raised where the model says the call succeeds (an observation, not a harness bug)."""


def make_ops():
    from hugr import ops, tys, val
    two = [tys.Bool, tys.Bool]
    return {
        "root": lambda: ops.Module(),
        "a": lambda: ops.Custom("opA", tys.FunctionType(two, two), "descr", "verif.ext", []),
        "b": lambda: ops.DFG(two, two),
        "const": None,
        "call": lambda: ops.Call(tys.PolyFuncType([tys.ListParam(tys.TypeTypeParam(tys.TypeBound.Any))],
                                                  tys.FunctionType.endo([tys.RowVariable(0, tys.TypeBound.Any)])),
                                 tys.FunctionType.endo(two), [tys.SequenceArg([tys.Bool.type_arg(), tys.Bool.type_arg()])]),
        "loadf": lambda: ops.LoadFunc(tys.PolyFuncType([], tys.FunctionType(two, []))),
        "loadc": lambda: ops.LoadConst(tys.Bool),
    }


class _AsNode:
    """a ToNode that is not a Node (what a builder object is to `insert_hugr(..., parent=builder)`)"""

    def __init__(self, node):
        self._n = node

    def to_node(self):
        return self._n


META = {"none": None, "m": {"k": "v", "n": [1, 2]}, "u": {"ü": None}}


class StoreAdapter:
    def __init__(self, offsets=(-1, 0, 1)):
        from hugr.hugr import Hugr
        self.Hugr = Hugr
        self.ops = make_ops()
        self.h = {1: Hugr(), 2: Hugr()}
        self.node = {1: {0: self.h[1].root}, 2: {0: self.h[2].root}}     # model id -> Node handle
        self.optok = {1: {0: "root"}, 2: {0: "root"}}
        self.metatok = {1: {0: "none"}, 2: {0: "none"}}
        self.dead = {1: {}, 2: {}}
        self.next = {1: 1, 2: 1}
        self.offsets = offsets
        self.handle_problem = None

    # ---------------------------------------------------------------- actions
    def apply(self, ev) -> dict:
        from hugr import val
        a, i = ev["a"], ev["i"]
        h = self.h[i]
        nd = self.node[i]
        try:
            if a == "AddNode":
                cnt = None if ev["cnt"] < 0 else ev["cnt"]
                meta = META[ev["m"]]
                if ev["o"] == "const":
                    n = h.add_const(val.TRUE, nd[ev["p"]], metadata=dict(meta) if meta else None)
                else:
                    n = h.add_node(self.ops[ev["o"]](), nd[ev["p"]], num_outs=cnt, metadata=dict(meta) if meta else None)
                mid = self.next[i]
                self.next[i] += 1
                nd[mid] = n
                self.optok[i][mid] = ev["o"]
                self.metatok[i][mid] = ev["m"]
                want = cnt if ev["o"] != "const" else None
                if n._num_out_ports != want:
                    self.handle_problem = f"handle of new node reports {n._num_out_ports} outputs, requested {want}"
                if any(n.idx == o.idx for k, o in nd.items() if k != mid and k not in self.dead[i]):
                    self.handle_problem = f"new node got index {n.idx} of a live node"
                return {"k": "node", "id": mid, "count": ev["cnt"]}
            if a == "AddLink":
                h.add_link(nd[ev["sn"]].out(ev["so"]), nd[ev["dn"]].inp(ev["do"]))
                return {"k": "ok"}
            if a == "AddOrderLink":
                h.add_order_link(nd[ev["sn"]], nd[ev["dn"]])
                return {"k": "ok"}
            if a == "SetMeta":
                md = h[nd[ev["n"]]].metadata
                md.clear()
                md.update(dict(META[ev["m"]] or {}))
                return {"k": "ok"}
            if a == "DeleteLink":
                h.delete_link(nd[ev["sn"]].out(ev["so"]), nd[ev["dn"]].inp(ev["do"]))
                return {"k": "ok"}
            if a == "DeleteNode":
                h.delete_node(nd[ev["n"]])
                self.dead[i][ev["n"]] = nd[ev["n"]]
                return {"k": "ok"}
            if a == "TouchDead":
                try:
                    h[self.dead[i][ev["n"]]]
                except KeyError:
                    return {"k": "KeyError"}
                # the index may have been re-used by a later node: then the old handle addresses that node's slot,
                # which the property allows ("a deleted node is unreachable" concerns its data) -- report what we see
                return {"k": "KeyError" if self._reused(i, ev["n"]) else "reachable"}
            if a == "InsertHugr":
                b = self.h[2]
                before_b = self._snapshot(2)
                parent = self.node[1][ev["p"]]
                if ev["p"] % 2 == 1:
                    parent = _AsNode(parent)            # the parent may be any ToNode (a builder, a handle wrapper), not only a Node
                mapping = self.h[1].insert_hugr(b, parent)
                inv_b = {n.idx: mid for mid, n in self.node[2].items() if mid not in self.dead[2]}
                live_b = sorted(inv_b.values())
                if sorted(inv_b[k.idx] for k in mapping) != live_b:
                    raise ImplError(f"mapping keys {sorted(k.idx for k in mapping)} are not B's live nodes")
                out = {}
                base = self.next[1]
                for rank, mid_b in enumerate(live_b):
                    real_b = self.node[2][mid_b]
                    new = mapping[real_b]
                    if dict(new.metadata) != dict(b[real_b].metadata):        # the handles of the mapping carry the copies' metadata
                        raise ImplError(f"handle returned for the copy of node {mid_b} carries metadata {dict(new.metadata)}, the node has {dict(b[real_b].metadata)}")
                    mid_a = base + rank
                    self.node[1][mid_a] = new
                    self.optok[1][mid_a] = self.optok[2][mid_b]
                    self.metatok[1][mid_a] = self.metatok[2][mid_b]
                    out[str(mid_b)] = mid_a
                self.next[1] += len(live_b)
                if self._snapshot(2) != before_b:
                    raise ImplError("insert_hugr modified the inserted HUGR")
                return {"k": "mapping", "map": out}
        except ImplError:
            raise
        except MachineryError:
            raise
        except Exception as e:  # noqa: BLE001
            raise ImplError(f"{a} raised {type(e).__name__}: {e}") from e
        raise MachineryError(f"unknown action {a}")

    def _reused(self, i, mid) -> bool:
        old = self.dead[i][mid]
        return any(n.idx == old.idx for k, n in self.node[i].items() if k not in self.dead[i])

    def _snapshot(self, i):
        h = self.h[i]
        return (sorted(n.idx for n in h), sorted((s.node.idx, s.offset, d.node.idx, d.offset) for s, d in h.links()),
                [(n.idx, [c.idx for c in h.children(n)], dict(h[n].metadata), h.num_out_ports(n)) for n in h])

    # ---------------------------------------------------------------- projection
    def project(self) -> dict:
        return {"a": self._proj(1), "b": self._proj(2)}

    def _proj(self, i) -> dict:
        from hugr.hugr.node_port import Direction
        h = self.h[i]
        live = {mid: n for mid, n in self.node[i].items() if mid not in self.dead[i]}
        inv = {n.idx: mid for mid, n in live.items()}
        problems = []

        def mid_of(node):
            if node.idx not in inv:
                problems.append(f"query returned unknown/dead node index {node.idx}")
                return -100 - node.idx
            return inv[node.idx]
        try:
            listed = [mid_of(n) for n in h]
            if len(h) != len(listed) or h.num_nodes() != len(listed):
                problems.append(f"len {len(h)} / num_nodes {h.num_nodes()} vs {len(listed)} iterated")
            nodes = []
            for mid, n in sorted(live.items()):
                try:
                    d = h[n]
                except KeyError:
                    problems.append(f"live node {mid} not found by lookup")
                    continue
                if (n in h) is not True:
                    problems.append(f"live node {mid} not `in` hugr")
                want_op = self.optok[i][mid]
                op_ok = (type(d.op).__name__ == {"root": "Module", "a": "Custom", "b": "DFG", "const": "Const", "call": "Call", "loadf": "LoadFunc", "loadc": "LoadConst"}[want_op])
                meta = d.metadata
                mt = next((k for k, v in META.items() if (v or {}) == meta), f"?{meta}")
                if meta != n.metadata and mid != 0:
                    pass  # handles may carry a stale metadata reference; the store's data is authoritative
                par = d.parent
                nodes.append({"id": mid, "op": want_op if op_ok else f"?{type(d.op).__name__}",
                              "parent": mid_of(par) if par is not None else mid,
                              "children": [mid_of(c) for c in h.children(n)], "meta": mt,
                              "nin": h.num_in_ports(n), "nout": h.num_out_ports(n)})
                if h.num_ports(n, Direction.INCOMING) != h.num_in_ports(n) or h.num_ports(n, Direction.OUTGOING) != h.num_out_ports(n):
                    problems.append(f"num_ports disagrees with num_in/out_ports on {mid}")
            links = Counter((mid_of(s.node), s.offset, mid_of(d.node), d.offset) for s, d in h.links())
            # ---- every other query must agree with links()
            for mid, n in sorted(live.items()):
                offs = set(self.offsets) | set(range(max(h.num_out_ports(n), h.num_in_ports(n))))
                for o in sorted(offs):
                    exp_out = Counter({(l[2], l[3]): c for l, c in links.items() if l[0] == mid and l[1] == o})
                    got_out = Counter((mid_of(p.node), p.offset) for p in h.linked_ports(n.out(o)))
                    if got_out != exp_out:
                        problems.append(f"linked_ports(out {mid}:{o}) = {dict(got_out)} but links() has {dict(exp_out)}")
                    exp_in = Counter({(l[0], l[1]): c for l, c in links.items() if l[2] == mid and l[3] == o})
                    got_in = Counter((mid_of(p.node), p.offset) for p in h.linked_ports(n.inp(o)))
                    if got_in != exp_in:
                        problems.append(f"linked_ports(in {mid}:{o}) = {dict(got_in)} but links() has {dict(exp_in)}")
                    for (m2, o2), c in exp_out.items():
                        if not h.has_link(n.out(o), live[m2].inp(o2)):
                            problems.append(f"has_link false for existing link {mid}:{o}->{m2}:{o2}")
                for (port, lst) in h.outgoing_links(n):
                    e = Counter({(l[2], l[3]): c for l, c in links.items() if l[0] == mid and l[1] == port.offset})
                    g = Counter((mid_of(p.node), p.offset) for p in lst)
                    if port.node.idx != n.idx or g != e:
                        problems.append(f"outgoing_links({mid}) port {port.offset}: {dict(g)} vs {dict(e)}")
                for (port, lst) in h.incoming_links(n):
                    e = Counter({(l[0], l[1]): c for l, c in links.items() if l[2] == mid and l[3] == port.offset})
                    g = Counter((mid_of(p.node), p.offset) for p in lst)
                    if port.node.idx != n.idx or g != e:
                        problems.append(f"incoming_links({mid}) port {port.offset}: {dict(g)} vs {dict(e)}")
                # links at non-negative offsets must all be listed by outgoing/incoming_links
                lo = Counter()
                for port, lst in h.outgoing_links(n):
                    lo[port.offset] += len(lst)
                for o in {l[1] for l in links if l[0] == mid and l[1] >= 0}:
                    if lo[o] != sum(c for l, c in links.items() if l[0] == mid and l[1] == o):
                        problems.append(f"outgoing_links({mid}) misses links at offset {o}")
                eo, ei = Counter(), Counter()
                for l, c in links.items():
                    if l[0] == mid and l[1] == -1:
                        eo[l[2]] += c
                    if l[2] == mid and l[3] == -1:
                        ei[l[0]] += c
                go = Counter(mid_of(x) for x in h.outgoing_order_links(n))
                gi = Counter(mid_of(x) for x in h.incoming_order_links(n))
                if eo != go or ei != gi:
                    problems.append(f"order link listings of {mid}: out {dict(go)} vs {dict(eo)}, in {dict(gi)} vs {dict(ei)}")
            # absent links are reported absent (sample: all pairs of live nodes at offset 0 / -1)
            for m1, n1 in live.items():
                for m2, n2 in live.items():
                    for o in (-1, 0):
                        if (m1, o, m2, o) not in links and h.has_link(n1.out(o), n2.inp(o)):
                            problems.append(f"has_link true for absent link {m1}:{o}->{m2}:{o}")
            dead = []
            for mid, n in self.dead[i].items():
                dead.append(mid)
                if not self._reused(i, mid):
                    try:
                        h[n]
                        problems.append(f"deleted node {mid} still reachable")
                    except KeyError:
                        pass
        except Exception as e:  # noqa: BLE001
            problems.append(f"query raised {type(e).__name__}: {e}")
            return {"problems": problems}
        if self.handle_problem:
            problems.append(self.handle_problem)
        return {"nodes": sorted(listed), "len": len(listed), "node": nodes,
                "links": [[list(l), c] for l, c in sorted(links.items())], "dead": sorted(dead), "problems": problems}


def compare_store(exp: dict, obs: dict):
    """exp: HugrStore!ObsS as emitted; obs: StoreAdapter._proj.  Returns (field, expected, observed) or None."""
    if obs.get("problems"):
        return ("queries", "all queries consistent with links()/the model", obs["problems"][:3])
    if sorted(exp["nodes"]) != obs["nodes"] or exp["len"] != obs["len"]:
        return ("nodes", sorted(exp["nodes"]), obs["nodes"])
    en = {n["id"]: n for n in exp["node"]}
    for n in obs["node"]:
        e = en.get(n["id"])
        if e is None:
            return ("node", None, n)
        for f in ("op", "parent", "children", "meta"):
            if list(e[f]) != list(n[f]) if f == "children" else e[f] != n[f]:
                return (f"node.{f}", e, n)
        if n["nin"] < e["nin"] or n["nout"] < e["nout"]:
            return ("port counts", e, n)
    el = sorted([[list(l), c] for l, c in exp["links"]])
    if el != sorted(obs["links"]):
        return ("links", el, sorted(obs["links"]))
    if sorted(exp["dead"]) != obs["dead"]:
        return ("dead", sorted(exp["dead"]), obs["dead"])
    return None
