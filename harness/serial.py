"""Document-level helpers for C02 / C03 / C05(b): canonical forms, schema validation, structural projections."""
from __future__ import annotations

import json
from collections import Counter
from functools import lru_cache

from . import wire as W
from .common import REPO
from .store_adapter import META


@lru_cache(maxsize=4)
def schema_validator(which: str = "SerialHugr", strict: bool = True):
    """Validator of the *published* schema file; the files only carry $defs, so the root is a $ref into them."""
    import jsonschema
    name = {"SerialHugr": "hugr_schema", "Package": "hugr_schema", "Extension": "hugr_schema"}[which]
    from hugr._serialization.serial_hugr import serialization_version
    f = REPO / "specification" / "schema" / f"{name}{'_strict' if strict else ''}_{serialization_version()}.json"
    defs = json.loads(f.read_text())
    root = which if which in defs.get("$defs", {}) else None
    if root is None:
        # the HUGR root model is the file's top level for SerialHugr
        schema = defs if "properties" in defs else {"$ref": f"#/$defs/{which}", "$defs": defs["$defs"]}
    else:
        schema = {"$ref": f"#/$defs/{root}", "$defs": defs["$defs"]}
    cls = jsonschema.validators.validator_for(schema)
    return cls(schema)


def schema_errors(doc, which="SerialHugr"):
    v = schema_validator(which)
    return [f"{'/'.join(map(str, e.absolute_path))}: {e.message}"[:300] for e in list(v.iter_errors(doc))[:3]]


def index_sane(doc) -> list:
    """The wire format's index rules, stated directly on the raw document (also evaluated by TLC in HugrValidity)."""
    probs = []
    nodes = doc["nodes"]
    if not nodes or nodes[0]["parent"] != 0:
        probs.append("node 0 is not its own parent")
    for k, n in enumerate(nodes[1:], start=1):
        if not (0 <= n["parent"] < k):
            probs.append(f"node {k} has parent {n['parent']} (must be a different node listed earlier)")
    for e in doc["edges"]:
        for end in e:
            if not (0 <= end[0] < len(nodes)):
                probs.append(f"edge endpoint names node {end[0]} of {len(nodes)}")
    md = doc.get("metadata")
    if md is not None and len(md) not in (0, len(nodes)):
        probs.append(f"{len(md)} metadata entries for {len(nodes)} nodes")
    return probs


def canon_doc(doc):
    """Relabel nodes by pre-order traversal of the hierarchy (children in document order).
    Returns (nodes [(op-json-without-parent, canonical parent, metadata)], Counter of edges)."""
    nodes = doc["nodes"]
    kids = {i: [] for i in range(len(nodes))}
    for i, n in enumerate(nodes):
        if i != 0 and 0 <= n["parent"] < len(nodes):
            kids[n["parent"]].append(i)
    order, stack = [], [0]
    while stack:
        x = stack.pop()
        order.append(x)
        stack.extend(reversed(kids[x]))
    new = {old: k for k, old in enumerate(order)}
    md = doc.get("metadata") or []
    out = []
    for old in order:
        op = {k: v for k, v in nodes[old].items() if k != "parent"}
        out.append((W.canon(W.strip_hugr(op)), new.get(nodes[old]["parent"], -1), md[old] if old < len(md) else None))
    edges = Counter(json.dumps([[new.get(e[0][0], -1), e[0][1]], [new.get(e[1][0], -1), e[1][1]]]) for e in doc["edges"])
    return out, edges, len(order) == len(nodes)


def model_doc_to_json(mdoc, wireops):
    """HugrSerial!DocJson (op tokens, metadata tokens, edge bag) -> a wire-shaped document."""
    nodes = [dict(W.from_tla(wireops[n["op"]]), parent=n["parent"]) for n in mdoc["nodes"]]
    edges = []
    for e, c in mdoc["edges"]:
        for _ in range(c):
            edges.append([[e[0][0], None if e[0][1] < 0 else e[0][1]], [e[1][0], None if e[1][1] < 0 else e[1][1]]])
    meta = [META[t] for t in mdoc["metadata"]]
    return {"nodes": nodes, "edges": edges, "metadata": meta}


def same_doc(a, b):
    """Compare two documents up to the canonical relabelling. Returns None or a description."""
    ca, ea, oka = canon_doc(a)
    cb, eb, okb = canon_doc(b)
    if not (oka and okb):
        return "hierarchy is not a tree rooted at node 0"
    if len(ca) != len(cb):
        return f"{len(ca)} vs {len(cb)} nodes"
    for k, (x, y) in enumerate(zip(ca, cb)):
        if x[0] != y[0]:
            return f"operation of node {k}: {json.dumps(x[0])[:200]} vs {json.dumps(y[0])[:200]}"
        if x[1] != y[1]:
            return f"parent of node {k}: {x[1]} vs {y[1]}"
        if (x[2] or None) != (y[2] or None):
            return f"metadata of node {k}: {x[2]} vs {y[2]}"
    if ea != eb:
        return f"edges differ: only-left {list((ea - eb).items())[:3]} only-right {list((eb - ea).items())[:3]}"
    return None


def structure(h):
    """Observable structure of a Hugr through its public queries, canonically numbered (pre-order, child order)."""
    order, stack = [], [h.root]
    while stack:
        x = stack.pop()
        order.append(x)
        stack.extend(reversed(h.children(x)))
    new = {n.idx: k for k, n in enumerate(order)}
    nodes = []
    for n in order:
        d = h[n]
        nodes.append((W.canon(W.strip_hugr(W.enc_op(d.op))), new[d.parent.idx] if d.parent is not None else 0,
                      [new[c.idx] for c in h.children(n)], W.canon(dict(d.metadata)), _function_bodies(getattr(d.op, "val", None))))
    links = Counter()
    for s, t in h.links():
        links[(new.get(s.node.idx, -1), s.offset, new.get(t.node.idx, -1), t.offset)] += 1
    per_port = Counter()
    for n in order:
        for o in range(-1, max(h.num_out_ports(n), 0)):
            for p in h.linked_ports(n.out(o)):
                per_port[(new[n.idx], o, new.get(p.node.idx, -1), p.offset)] += 1
    per_in = Counter()       # ... and the same links as seen from their target ports (a gap in the sub-offsets of an in-port hides links)
    for n in order:
        for o in range(-1, max(h.num_in_ports(n), 0)):
            for p in h.linked_ports(n.inp(o)):
                per_in[(new.get(p.node.idx, -1), p.offset, new[n.idx], o)] += 1
    return {"n": len(h), "nodes": nodes, "links": links, "per_port": per_port, "per_in": per_in}


def _function_bodies(v, depth=0):
    """the observable structure of every function-valued constant inside a constant, read from the live body HUGRs (not from the
    constant's encoded form)"""
    if v is None or depth > 4:
        return []
    body = getattr(v, "body", None)
    if body is not None and hasattr(body, "links"):
        st = structure(body)
        return [[st["n"], [list(x[:4]) for x in st["nodes"]], sorted((list(k), c) for k, c in st["links"].items())]]
    out = []
    for x in getattr(v, "vals", None) or []:
        out.extend(_function_bodies(x, depth + 1))
    return out


def same_structure(a, b):
    if a["n"] != b["n"] or len(a["nodes"]) != len(b["nodes"]):
        return f"{a['n']} vs {b['n']} nodes"
    for k, (x, y) in enumerate(zip(a["nodes"], b["nodes"])):
        for f, name in enumerate(("operation", "parent", "child order", "metadata", "bodies of function-valued constants")):
            if x[f] != y[f]:
                return f"{name} of node {k}: {json.dumps(x[f])[:160]} vs {json.dumps(y[f])[:160]}"
    if a["links"] != b["links"]:
        return f"links differ: only-original {list((a['links'] - b['links']).items())[:3]} only-reloaded {list((b['links'] - a['links']).items())[:3]}"
    if a["per_port"] != b["per_port"] or a["per_port"] != a["links"]:
        return "linked_ports listing differs from links()"
    if a["per_in"] != b["per_in"] or a["per_in"] != a["links"]:
        return ("linked_ports listing of the in-ports differs from links(): only-links "
                f"{list((a['links'] - a['per_in']).items())[:3]} only-listing {list((a['per_in'] - a['links']).items())[:3]} reloaded-listing-extra {list((b['per_in'] - a['per_in']).items())[:3]}")
    return None
