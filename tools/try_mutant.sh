#!/bin/bash
# usage: tools/try_mutant.sh <mutant-dir> <PROP> [<PROP>...]   (applies patch.diff to /repo, runs demo + checks, reverts)
# prints one summary line:  MUTANT <dir> demo_clean=<rc> demo_mut=<rc> baseline=<ok|broken> <PROP>=<caught|missed|error>...
D="$1"; shift
cd /repo || exit 2
if [ -n "$(git status --porcelain --untracked-files=no)" ]; then echo "repo not clean"; exit 2; fi
PYTHONPATH=/repo/hugr-py/src PYTHONDONTWRITEBYTECODE=1 /venv/bin/python "$D/demo.py" >/dev/null 2>&1; dc=$?
if ! git apply --check "$D/patch.diff" 2>/dev/null; then echo "MUTANT $D patch does not apply"; exit 3; fi
git apply "$D/patch.diff"
trap 'git -C /repo checkout -- . ' EXIT
PYTHONPATH=/repo/hugr-py/src PYTHONDONTWRITEBYTECODE=1 /venv/bin/python "$D/demo.py" >/dev/null 2>&1; dm=$?
if /tmp/mut/run_tests.sh /repo >/dev/null 2>&1; then bl=ok; else bl=broken; fi
out="MUTANT $D demo_clean=$dc demo_mut=$dm baseline=$bl"
for P in "$@"; do
  o=$(cd /verif && ./check $P --tier ${TIER:-quick} 2>&1); rc=$?
  if [ $rc -eq 1 ] && echo "$o" | grep -q "^VIOLATION property=$P"; then r=caught; elif [ $rc -eq 0 ]; then r=missed; else r="error($rc)"; fi
  out="$out $P=$r"
  if [ "$r" != caught ]; then echo "$o" | tail -5 | sed 's/^/    /'; fi
done
echo "$out"
