#!/bin/bash
# usage: tools/try_mutant_wt.sh <mutant-dir> <PROP> [<PROP>...]
# Like try_mutant.sh, but evaluates the change in a scratch git worktree of /repo (under /tmp/mr) selected with VERIF_REPO, so /repo
# itself is never touched and several mutants (of different properties) can be evaluated at once. The worktree is removed afterwards.
D="$1"; shift
id=$(echo "$D" | tr '/' '_' | tail -c 40)
W=/tmp/mr/$id
mkdir -p /tmp/mr; git -C /repo worktree remove --force "$W" >/dev/null 2>&1; rm -rf "$W"
git -C /repo worktree add --detach "$W" HEAD >/dev/null 2>&1 || { echo "MUTANT $D worktree failed"; exit 2; }
trap 'git -C /repo worktree remove --force "$W" >/dev/null 2>&1; rm -rf "$W"' EXIT
(cd "$W" && PYTHONPATH=$W/hugr-py/src PYTHONDONTWRITEBYTECODE=1 /venv/bin/python "$D/demo.py" >/dev/null 2>&1); dc=$?
if ! git -C "$W" apply --check "$D/patch.diff" 2>/dev/null; then echo "MUTANT $D patch does not apply"; exit 3; fi
git -C "$W" apply "$D/patch.diff"
(cd "$W" && PYTHONPATH=$W/hugr-py/src PYTHONDONTWRITEBYTECODE=1 /venv/bin/python "$D/demo.py" >/dev/null 2>&1); dm=$?
if PYTHONPATH=$W/hugr-py/src /tmp/mut/run_tests.sh "$W" >/dev/null 2>&1; then bl=ok; else bl=broken; fi
out="MUTANT $D demo_clean=$dc demo_mut=$dm baseline=$bl"
for P in "$@"; do
  o=$(cd /verif && VERIF_REPO="$W" ./check $P --tier ${TIER:-quick} 2>&1); rc=$?
  if [ $rc -eq 1 ] && echo "$o" | grep -q "^VIOLATION property=$P"; then r=caught; elif [ $rc -eq 0 ]; then r=missed; else r="error($rc)"; fi
  out="$out $P=$r"
  if [ "$r" != caught ]; then echo "$o" | tail -5 | sed 's/^/    /'; else echo "$o" | grep -m2 "^VIOLATION" | sed 's/^/    /'; fi
done
echo "$out"
