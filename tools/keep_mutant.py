#!/usr/bin/env python3
"""usage: tools/keep_mutant.py <src-dir> <seeded-id> "<result line from try_mutant.sh>"
Copies a confirmed seeded change into /verif/seeded/<id>/ and records what was run."""
import json, shutil, sys
from pathlib import Path
src, sid, line = Path(sys.argv[1]), sys.argv[2], sys.argv[3]
dst = Path("/verif/seeded") / sid
dst.mkdir(parents=True, exist_ok=True)
for f in ("patch.diff", "demo.py"):
    shutil.copy(src / f, dst / f)
meta = json.loads((src / "meta.json").read_text())
res = dict(kv.split("=", 1) for kv in line.split()[2:] if "=" in kv)
WT = len(sys.argv) > 5 and sys.argv[5] == "wt"
meta["confirmed"] = {
    "ran": ["git -C /repo worktree add --detach /tmp/mr/<id> HEAD; git -C /tmp/mr/<id> apply patch.diff", "PYTHONPATH=/tmp/mr/<id>/hugr-py/src /venv/bin/python demo.py (clean and changed worktree)",
            "pinned baseline test-suite in the changed worktree", "VERIF_REPO=/tmp/mr/<id> ./check <property> --tier quick", "git -C /repo worktree remove --force /tmp/mr/<id>"] if WT else
           ["git -C /repo apply patch.diff", "PYTHONPATH=/repo/hugr-py/src /venv/bin/python demo.py (clean tree and changed tree)",
            "pinned baseline test-suite on the changed tree (/root/.vp/BASELINE.json command)",
            "./check <property> --tier quick on the changed tree", "git -C /repo checkout -- ."],
    "demo_exit_clean_tree": int(res.get("demo_clean", -1)), "demo_exit_changed_tree": int(res.get("demo_mut", -1)),
    "baseline_suite": res.get("baseline"),
    "checks": {k: v for k, v in res.items() if k.startswith("C")},
    "repo_head_when_confirmed": sys.argv[4] if len(sys.argv) > 4 else None,
}
(dst / "meta.json").write_text(json.dumps(meta, indent=1) + "\n")
print("kept", dst)
