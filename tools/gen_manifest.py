#!/usr/bin/env python3
"""Regenerate /verif/MANIFEST.json from the table below (keeps it schema-valid at all times)."""
import json
from pathlib import Path

V = Path(__file__).resolve().parent.parent
ALL = [f"C{i:02d}" for i in range(1, 21)]

# property -> (technique, level text, level note, design ref)
CLAIMED = {
    "C18": ("TLA+ spec BiMap.tla: TLC complete state graph + per-transition replay into hugr.utils.BiMap (S->C) + "
            "TLC trace validation of random executions (C->S)",
            "TLC explores the complete state graph of the two-dictionary model for 4 (quick) / 5 (thorough) key and value "
            "tokens checking Inverse, Bijection and the displacement/deletion action laws; every transition of that graph "
            "is replayed on the real class and both dictionaries plus every public view compared; random real histories "
            "(60-200 calls, 6-8 keys) are validated step by step by Trace_BiMap.",
            "Keys are used only via ==/hash so tokens generalise; trusts TLC, the ~100-line adapter in harness/props/c18.py.",
            "DESIGN.md §5 C18"),
    "C19": ("TLA+ spec Shots.tla: TLC enumeration of all entry sequences / shot lists + replay into QsysShot/QsysResult (S->C) + "
            "TLC trace validation of random entry streams (C->S)",
            "TLC enumerates every entry sequence (no state collapsing) up to length 2-5 over pools of whole/indexed tags and "
            "bit / non-bit / list / nested values, and every list of <=3-4 shots x strict flags, checking the write laws "
            "(FoldAgrees, OnlyBits, StepLaw); each case is executed on the real classes and to_register_bits, "
            "register_bitstrings/counts and collated_counts compared; random streams of 10-80 entries are validated by Trace_Shots.",
            "Tag tokens are bound to strings in harness/props/c19.py; floats equal to 0/1 and tags with trailing newline are outside the domain.",
            "DESIGN.md §5 C19"),
    "C09": ("TLA+ spec Envelope.tla: TLC enumeration of all header byte pairs / truncations / corruptions / package "
            "configurations + execution on EnvelopeHeader / Package (S->C)",
            "TLC enumerates all 65536 format/flag byte pairs, all truncations and magic corruptions with DecodeHeader's verdict, "
            "and every (0..n modules, 0..n extensions incl. two with the same name, format, zstd level incl. None and 0, bytes/text) "
            "configuration of the Write/Read channel model (RoundTrip, FlagLaw, HeaderInverse invariants); each case is executed "
            "on the real code: verdict and header fields, first ten bytes, flag bit <=> zstd frame, decoded package documents.",
            "zstd/UTF-8/JSON codecs are opaque; MODULE formats only for header/refusal; module tokens bound to the catalogue in harness/catalog.py.",
            "DESIGN.md §5 C09"),
    "C16": ("TLA+ spec NodeHandle.tla: TLC enumeration of every (count, index) and (count, start, stop, step) + evaluation on real handles",
            "TLC checks that the property-level definition (Python range slicing with the two documented deviations) agrees "
            "with the transcription of the implemented algorithm on the whole bounded domain and emits every case; each is "
            "evaluated on handles obtained from Node(), Hugr.add_node(num_outs=) and children(); port identity facts checked directly. "
            "Builder-returned handles: from the program generator and from every finished program of HugrBuilder.tla (HandleCounts).",
            "n <= 4/6, |i| <= 7/10, step in {None,1,2,3}; unknown-count handles only for i>=0, [:] and iteration.",
            "DESIGN.md §5 C16"),
    "C05": ("TLA+ term algebra HugrWire/HugrStd: TLC enumeration of type/param/arg/op/value terms with their specified wire "
            "encoding + build/encode/decode/project/re-encode on the real classes (S->C)",
            "TLC enumerates object-view terms up to nesting depth 2-3 (all type constructors incl. sugar, opaque and definition-backed "
            "types; 6 params; 6 args; all 21 op kinds and the sugar ops; values incl. std constants and function values), checks the "
            "algebraic laws (Desugar idempotent, bound preserved, ...) and prints each term with EncOp/EncValS/Desugar; every term is "
            "built via public constructors, serialized, decoded via the pydantic models, projected attribute by attribute and re-encoded.",
            "Set-typed fields compared as sets; Conditional/Case/CFG deltas are not data-model attributes; the foreign-document clause is "
            "covered by the ForeignWrite leg when present (see evidence legs).",
            "DESIGN.md §5 C05"),
    "C06": ("TLA+ HugrWire typing operators (DfSig, InnerSig, PortKind, NumOut, CaseInputs, SuccOutputs): TLC laws over all op "
            "terms + comparison with outer/inner_signature, num_out, port_kind, port_type (S->C)",
            "TLC enumerates op terms of all 21 kinds + sugar ops over rows incl. empty rows, linear types and a row-polymorphic callee "
            "whose instantiation changes arity, checks the typing laws, and prints signatures and the kind of every port; each is "
            "compared with the decoded (and built) op object and through Hugr.port_kind/port_type, incl. the order port.",
            "Only existing ports are queried; types compared up to the two spellings of sums of empty rows.",
            "DESIGN.md §5 C06"),
    "C07": ("TLA+ HugrWire!Bound with the independent law CopyableIffAtoms: TLC over all type terms + type_bound()/serialized bound/"
            "Array/List/StaticArray on the real classes (S->C)",
            "TLC checks Bound = C <=> all atomic constituents copyable (stated via Atoms, independently of Bound's recursion) on every "
            "type term of depth <= 2-3 incl. every from-params index list and look-alike elements with different bounds; each term's "
            "type_bound(), serialized opaque bound, bound after decode, and std containers over it are compared.",
            "From-params indices in range naming Type args given as TypeTypeArg; std bound specs read from the repository JSON at run time.",
            "DESIGN.md §5 C07"),
    "C14": ("TLA+ HugrStd!InhabitsS / TypeOfS / EncValS: TLC over value expressions + type_(), serialization, Const / load() on the real classes (S->C)",
            "TLC enumerates value expressions built from the helper constructors to depth 2-3 (widths 0..6, arrays/lists/static arrays "
            "of every element type, functions, re-bound function bodies) and checks InhabitsS and that the serialized form carries the "
            "reported type; each is built in Python and type_(), serialized form, defining extension, Const static port and the "
            "LoadConstant from load() compared.",
            "General Sum values generated well-typed only.",
            "DESIGN.md §5 C14"),
    "C04": ("TLA+ spec HugrStore.tla (hierarchical port multigraph, bag of links): TLC complete state graph with invariants and "
            "per-action laws + per-state replay into hugr.Hugr (S->C) + TLC trace validation of long random histories (C->S)",
            "TLC explores the complete graph of the store model for 2 non-root nodes / offsets {-1,0} / <=2 links (NoDangling, TreeShape, "
            "PortCountsCover, AddLink/DeleteLink/DeleteNode exactness). One behaviour per distinct model state is replayed on a real Hugr "
            "and every C04 query (iteration, len, lookup, parent, ordered children, links(), linked_ports both ends, incoming/outgoing and "
            "order-link listings, has_link, port counts, handle counts) compared; random histories of 30-300 calls over <=12 nodes and two "
            "stores incl. insert_hugr are executed on the real class and validated step by step by Trace_HugrStore.",
            "Node ids up to the bijection from returned handles; links as bags; port counts by >=; non-leaf deletion outside the property.",
            "DESIGN.md §5 C04"),
    "C08": ("TLA+ HugrStore!InsertHugr with action property InsertIsIso over two stores: TLC over all pairs (A,B) x parents + replay of "
            "post-insertion states (S->C) + trace validation of real insertions (C->S)",
            "TLC checks InsertIsIso (bijection onto new nodes, ops / child order / metadata / output counts / bag of links incl. order "
            "links preserved, root image last child of the parent, A's nodes and links unchanged, B unchanged) on every reachable pair "
            "of small stores and parent; a sample of the post-insertion states is replayed on two real Hugrs; random two-store histories "
            "with frequent insertions (B with deleted nodes, multi-links, order links) are validated by Trace_HugrStore.",
            "insert_nested/insert_cfg/insert_conditional/insert_tail_loop are covered by the builder checks (C01/C16) when present.",
            "DESIGN.md §5 C08"),
    "C02": ("TLA+ spec HugrSerial.tla (Serialize / Load over HugrStore states) with RoundTripLaws: TLC over all store states + "
            "to_json/load_json on replayed real stores (S->C) + random mutation histories and catalogue HUGRs",
            "TLC checks losslessness (SameUpToRenumbering), the fixed point and the foreign-offset law on every reachable store state "
            "within the bounds; for a sample of the states the history is replayed on a real Hugr and to_json compared with "
            "HugrSerial!Serialize (up to canonical relabelling; exactly when no node was deleted), load_json(to_json) compared as JSON "
            "value and by observable structure (ops, ordered hierarchy, metadata, bag of links per port incl. order links); the same "
            "for random histories with deletion / index reuse / insertion and the builder catalogue.",
            "Links attach only to ports the operations have; per-operation attributes are covered by C05's document-level leg.",
            "DESIGN.md §5 C02"),
    "C03": ("TLA+ HugrSerial!IndexSane / PortAddressing over Serialize of all store states + published strict schema as oracle "
            "on every document obtained from the implementation",
            "TLC checks IndexSane and PortAddressing on Serialize(s) for every reachable store state; documents of replayed states, "
            "random mutation histories (deletion, index reuse), catalogue HUGRs, packages, catalogue and std extensions are validated "
            "against the published strict schema ($ref into $defs) and for index sanity, and compared with HugrSerial!Serialize "
            "(order edges at OrderOffset independent of connected ports, static port after the value inputs).",
            "JSON-Schema semantics are taken from the jsonschema library (the schema is an oracle file, not re-modelled).",
            "DESIGN.md §5 C03"),
    "C10": ("TLA+ spec ExtensionDefs.tla (extension as state; AddTypeDef/AddOpDef/AddValue; ExtToJson/ExtFromJson): TLC complete "
            "state graph with OwnerInReqs and RoundTrip + replay of every add order into hugr.ext.Extension (S->C); std library "
            "compared with specification/std_extensions",
            "TLC explores every order of adding up to 3 type definitions, 4 operation definitions (mono, polymorphic with existing "
            "requirements, binary-only, signature+binary) and a value; each path is replayed, the object projected attribute by attribute, "
            "serialized, reloaded and re-serialized. Every file under specification/std_extensions is byte-compared with the bundled "
            "copy, loaded, round-tripped, and the typed helpers' definitions and parameter kinds/values are compared with the files.",
            "No lowering functions; byte identity and helper/definition agreement are binding checks on repository artefacts.",
            "DESIGN.md §5 C10"),
    "C01": ("TLA+ specs HugrValidity.tla (transcription of the reference validator, split into Builder / User obligations) and "
            "HugrBuilder.tla (explicit state machine of every builder family: dataflow, conditional / if-else, tail loop, functions and "
            "calls incl. Module roots and row-polymorphic calls, CFG with Dom wires, insert_*): TLC checks Finished => Valid(Doc) over all "
            "small builder programs per family, replays every finished state and long random walks (TLC simulation) on the real builders "
            "(S->C); TLC judges the raw wire documents of captured repository test programs and seeded random well-formed programs (C->S)",
            "TLC reads the documents exactly as the implementation wrote them and evaluates User(d) => Builder(d) (allowed children, "
            "IO/entry/exit/case positions and rows, port counts, kind and type at both ends of every edge, order edge for every Ext wire, "
            "no value edge into a function body, Dom edges, CFG successor rows, constants inhabit their type; acyclicity, dominance, "
            "linearity and input connectivity as the premise). Inputs: every document the repository's builder tests send to "
            "`hugr validate` (42, calibration) and 250 (quick) / 3000 random programs over all builder entry points of C01. Corrupted "
            "documents must be rejected on the expected clause.",
            "The generator satisfies the premise by construction; extension-requirement inference and OpDef instantiation are not modelled. "
            "HugrBuilder leg (harness/props/builder_model.py): ~49 000 finished programs replayed in the quick tier, the serialized document "
            "compared node for node and edge for edge with the specification's Doc, handle counts included; exhaustive per configuration "
            "(Ops / Features / MaxCalls constants in the evidence legs), plus simulation walks of 14-22 calls with all families mixed.",
            "DESIGN.md §5 C01"),
    "C15": ("TLA+ spec HugrTracked.tla (tracked list + the explicit program it denotes): TLC complete state graph with "
            "FreedForGood/OnlyGrows/WellWired + paired replay on TrackedDfg and plain Dfg (S->C) + trace validation of random tracked "
            "programs (C->S)",
            "TLC explores all programs of <=2 commands over width 2 with mixed integer/wire arguments (same index twice, multi-output ops, "
            "untracked holes), a sample of the distinct states is replayed on a real TrackedDfg and, with the wires the specification "
            "substitutes, on a plain Dfg: returned indices/wires, the tracked list, the explicit program read back from both HUGRs "
            "(ops, links, metadata), outputs and both documents are compared; random programs of 10-60 calls over width 3 are validated "
            "step by step by Trace_HugrTracked.",
            "Non-negative indices; after a refused call (IndexError) the behaviour ends (partial effects are not compared).",
            "DESIGN.md §5 C15"),
    "C13": ("TLA+ spec HugrRefusals.tla (one decision function per inconsistency class, wire locality over a hierarchy skeleton): "
            "TLC enumeration of every situation with its specified outcome + set-up and offending call on the real builders (S->C); "
            "HugrBuilder!BadNext: one inconsistent call at any position of any well-formed program of the builder state machine, replayed (S->C)",
            "TLC enumerates all row pairs for case / exit-branch / function outputs (3 variants of building the conditional, one nested), "
            "case indices -2..4 x built sets, unbuilt-case exits, polymorphic call/load uses (params x type args x instantiation x 4 entry "
            "points), call targets, wire sources, integer arguments (tracked / untracked / plain builder), incomplete serializations, and "
            "all 100 (source, target builder) pairs of a world HUGR with nested DFGs, two CFGs, blocks and a CFG nested in a block whose "
            "hierarchy is read back from the real object; the offending call must raise the documented class, consistent calls must be accepted.",
            "The state after a refused call is not compared; Dom wires requested through builders nested below a block are unspecified. "
            "BadNext leg: 33 600 (quick) / 963 000 (thorough) programs ending in a refusal, nine refusal situations, expected error class from WireVerdict etc.",
            "DESIGN.md §5 C13"),
    "C12": ("TLA+ spec ModelExport.tla (RegionsMirrorHierarchy, PortsAreValuePorts, LinkPartition, Hyperedge, SymbolsResolve, "
            "OrderHints, MetadataCarried) evaluated by TLC on pairs (raw wire document, exported model read as the Rust binding reads it) (C->S)",
            "For 120 (quick) / 1500 module-rooted HUGRs from seeded random well-formed builder programs plus the catalogue, to_model() is "
            "projected by emulating the binding's attribute reads and TLC decides every conjunct of ExportFaithful against the document; "
            "the attribute table is extracted from hugr-model/src/v0/ast/python.rs and compared with the dataclass fields; corrupted "
            "exports must be rejected on the expected clause.",
            "C->S only (the export has no state to drive); symbols of function definitions nested below the module are not compared.",
            "DESIGN.md §5 C12"),
    "C11": ("TLA+ HugrWire!Resolve with laws (idempotent, invisible on the wire, bound-preserving, exact replacement counts) over "
            "(type term, registry) pairs: TLC + resolution against real ExtensionRegistry objects (S->C); HUGR-level Custom ops x registries",
            "TLC enumerates ~190 type terms with opaque occurrences at every depth (sum rows, function types, type / sequence arguments, "
            "arguments of opaque types) x all 16 registries and checks the laws; every pair (every third in quick) is resolved by the real "
            "code and the positions that became definition-backed, serialization, bound, model export, a second resolution and "
            "TypeTypeArg.resolve compared; loaded HUGRs with Custom ops are resolved against 8 registries (op replaced iff defined, "
            "signature / args resolved, document and model unchanged except the description).",
            "Declared bounds of opaque types agree with the registry's definitions.",
            "DESIGN.md §5 C11"),
    "C20": ("TLA+ spec Render.tla (NodesOnce, ClustersMirror, EdgesOnce) evaluated by TLC on pairs (projection of the HUGR, parsed "
            "DOT source) (C->S); store-unchanged and configuration-independence compared on the parsed structures",
            "HUGRs from 100 (quick) / 1200 seeded random builder programs and the catalogue are rendered; a small DOT reader extracts node "
            "statements with their port cells, the cluster nesting and the edge statements; TLC decides that every node, port and link is "
            "drawn exactly once with the right names / offsets / type labels and that clusters nest as the hierarchy; the HUGR is projected "
            "before and after rendering, and all palette x qualify_op_name configurations must give the same structure up to colours and "
            "the extension prefix. Corrupted drawings must be rejected on the expected clause.",
            "Display names and type strings are taken from the same op.name()/str(type) the renderer uses; only the graphviz Python package is needed.",
            "DESIGN.md §5 C20"),
    "C17": ("TLA+ SchemaAgreement.tla enumerates base documents (one per constructor path of the wire vocabulary); differential "
            "acceptance of single-point mutations between the published schema files and the pydantic codec rebuilt per configuration; "
            "regenerated vs published schema definitions",
            "Exploration, not proof: for every TLC-enumerated base document and every position, five mutation classes whose JSON-Schema and "
            "pydantic semantics coincide (delete key, unknown key, unknown discriminator, container:=7, scalar:=[], value:=null) are "
            "applied; published schema (jsonschema) and codec (model_validate_json after _pydantic_rebuild in the generator's order) "
            "must give the same verdict for the strict and lax configurations of the HUGR, testing, extension and package roots; the "
            "regenerated definitions must equal the published ones up to the void `additionalProperties: true`; version strings must agree.",
            "Cannot see differences that do not change acceptance on the enumerated space (titles, descriptions, defaults of accepted documents).",
            "DESIGN.md §5 C17"),
}

NOT_YET = "check not built yet in this round (planned: see DESIGN.md §5); nothing is claimed for it until its TLA+ spec and conformance legs exist"


def main():
    checks = []
    for pid in ALL:
        if pid not in CLAIMED:
            continue
        tech, text, note, ref = CLAIMED[pid]
        checks.append({
            "property_id": pid,
            "quick_cmd": f"./check {pid} --tier quick",
            "thorough_cmd": f"./check {pid} --tier thorough",
            "evidence_file": f"/verif/evidence/{pid}.json",
            "replay_cmd_template": f"./check {pid} --replay {{path}}",
            "engine": "tlc-conformance",
            "level_claimed": {"category": "exploration" if pid == "C17" else "model_checking", "text": text, "design_ref": ref},
            "level_note": note,
            "technique": tech,
        })
    man = {
        "version": 1,
        "setup_cmd": "./setup.sh",
        "hooks": {
            "guard": "CQCL_HUGR_PYTHON_VERIF",
            "enable": "no source hooks are needed: hugr-py is a sequential in-process library and every abstract variable "
                      "is observable through its public API; checks import hugr from /repo/hugr-py/src of the working tree",
            "baseline_off_cmd": "cd /repo && /venv/bin/python -m pytest -ra -q -p no:cacheprovider --timeout=900 --continue-on-collection-errors",
            "source_commits": [],
            "add_only": True,
        },
        "engines": [{
            "name": "tlc-conformance", "path": "/verif/check",
            "serves_properties": sorted(CLAIMED),
            "kind_free_text": "explicit TLA+ specifications in /verif/spec checked with TLC; bound to hugr-py by replaying "
                              "TLC-generated behaviours into the real code and by TLC validating traces/documents recorded from the real code",
        }],
        "checks": checks,
        "notes": "See DESIGN.md. known_findings.json lists recorded defects and fix: commits.",
        "not_applicable": [{"property_id": p, "reason": NOT_YET} for p in ALL if p not in CLAIMED],
    }
    (V / "MANIFEST.json").write_text(json.dumps(man, indent=1) + "\n")


if __name__ == "__main__":
    main()
